"""C17 - a session's writes are atomic under crashes and database errors.

Spec: spec/PonyTxn.tla, Atomic / AtomicAction: the durable content changes only in the DB-API commit of a session and
then by exactly the session's open unit; abandoned units never become durable; a crash inside any DB-API call
(including COMMIT, where the commit may or may not have become durable) leaves the pre- or the post-commit content.
Binding: write programs (ORM creates/updates/deletes/collection adds flushed at commit, raw db.execute / db.insert,
explicit flush/commit) x session kinds (optimistic, immediate, serializable) x every DB-API call index k:
 (a) a forked child runs the program on a file-backed database and os._exit()s inside the k-th call; the parent reads the
     file with an independent connection: the content must be the pre- or a post-commit content (all-or-nothing per
     transaction unit), and the child's trace + Recover{dump} is validated against PonyTxn;
 (b) the k-th call raises sqlite3.OperationalError: trace (with the observer's Dump) validated against PonyTxn, and the
     content must again be a unit boundary."""
import copy
import itertools
import json
import os
import random

from .. import tlc, txnlib
from ..tlc import MachineryError

LEVEL = 'model_checking'
SKIP_MC = bool(__import__('os').environ.get('VERIF_TXN_SKIP_MC'))

WRITE_OPS = [('create',), ('update',), ('delete',), ('link',), ('raw',), ('raw', 'insert')]


def programs(ctx):
    """Write programs: lists of ops; pks are assigned by position so that every op touches its own row."""
    quick = ctx.tier == 'quick'
    rng = random.Random(ctx.seed)
    progs = []
    for op in WRITE_OPS:
        progs.append([op])
    for a, b in itertools.product(WRITE_OPS, repeat=2):
        progs.append([a, b])
    extra = [[('link',)], [('link',), ('link',)], [('link',), ('flush',), ('create',)], [('link',), ('read',), ('raw',)],
             [('create',), ('flush',), ('raw',)], [('update',), ('read',), ('delete',)],
             [('create',), ('commit',), ('raw',)], [('raw',), ('commit',), ('create',), ('link',)],
             [('delete',), ('flush',), ('create',), ('commit',), ('update',)]]
    if not quick:
        for t in itertools.product(WRITE_OPS + [('flush',), ('commit',), ('read',)], repeat=3):
            if any(o in WRITE_OPS for o in t):
                extra.append(list(t))
    rng.shuffle(progs)
    progs = progs[:(9 if quick else len(progs))] + extra
    if not quick:
        rng.shuffle(progs)
        progs = progs[:24]
    out = []
    for p in progs:
        q = []
        for i, op in enumerate(p):
            if op[0] in ('update', 'delete'):
                q.append([op[0], i + 1])
            elif op[0] == 'link':
                q.append(['link', i % 3 + 1, (i + 1) % 3 + 1])
            else:
                q.append(list(op))
        out.append(q)
    return out


def session_of(prog, kind):
    return dict(form='cm', kind=kind, attempts=[dict(ops=prog, end='return')])


def allowed_contents(evs):
    """Unit boundaries of the recorded execution: the sets of write ids the database may contain afterwards."""
    units = [set()]
    cur = set()
    for e in evs:
        if e['ev'] == 'Body' and e['op'] in ('write', 'rawwrite'):
            cur.add(e['w'])
        elif e['ev'] == 'Body' and e['op'] == 'commit':
            units.append(units[-1] | cur)
            cur = set()
        elif e['ev'] == 'Body' and e['op'] == 'rollback':
            cur = set()
    units.append(units[-1] | cur)
    return units


def wmap_of(evs):
    m = {}
    for e in evs:
        if '_what' in e:
            m[e['w']] = tuple(e['_what'])
    return m


def crash_run(ctx, prog, kind, k):
    """Child process: run the session, die inside the k-th DB-API call.  Returns (events, exit status)."""
    path = ctx.scratch.path('c17', 'db-%d.sqlite' % random.getrandbits(40))
    import shutil
    shutil.copyfile(txnlib.template_db(ctx.scratch), path)
    sink_path = path + '.events'
    sink = open(sink_path, 'w')
    env = txnlib.Env(ctx.scratch, sink=sink, path=path)     # bound in the parent: the child only runs the session
    pid = os.fork()
    if pid == 0:
        code = 3
        try:
            env.rec.armed = True
            env.rec.fault_mode = 'crash'
            env.rec.fault_at = k
            import threading
            t = threading.Thread(target=lambda: env.run_session(session_of(prog, kind)))   # fresh thread: empty pool
            env.rec.set_actor(1)
            t.start()
            t.join()
            sink.flush()
            code = 0
        except BaseException:
            import traceback
            traceback.print_exc()
        finally:
            os._exit(code)
    _, status = os.waitpid(pid, 0)
    code = os.waitstatus_to_exitcode(status)
    sink.close()
    env.close(remove=False)
    evs = []
    with open(sink_path) as f:
        for line in f:
            line = line.strip()
            if line:
                evs.append(json.loads(line))
    os.remove(sink_path)
    return path, evs, code


def strip(evs):
    return [{k: v for k, v in e.items() if not k.startswith('_')} for e in evs]


def run(ctx):
    quick = ctx.tier == 'quick'
    # ---- 1. TLC on the specification ------------------------------------------------------------------------------------
    inv = txnlib.ALL_INV
    if quick:
        cfgs = [('crash', txnlib.mc_cfg(inv, txnlib.ALL_PROP, NActors=2, AllowCrash='TRUE', Forms='{"cm"}', Kinds='{"opt","imm"}',
                                        ExcKinds='{"other"}', MaxNest=1, MaxRetry=0))]
    else:
        cfgs = [('crash', txnlib.mc_cfg(inv, txnlib.ALL_PROP, NActors=2, AllowCrash='TRUE', Forms='{"cm","dec"}',
                                        Kinds='{"opt","imm"}', ExcKinds='{"other"}', MaxNest=1)),
                ('crash-2threads', txnlib.mc_cfg(inv, txnlib.ALL_PROP, NActors=3, NThreads=2, AllowCrash='TRUE', Forms='{"cm"}',
                                                 Kinds='{"imm"}', ExcKinds='{"other"}', MaxNest=1, MaxWrites=1, MaxRetry=0)),
                ('errors', txnlib.mc_cfg(inv, txnlib.ALL_PROP, MaxSess=2))]
    if SKIP_MC:
        cfgs = []      # development aid (mutant runs): the TLC runs on the spec do not depend on pony
    states = transitions = 0
    mc = {}
    for name, cfg in cfgs:
        res = tlc.model_check('PonyTxn', cfg, ctx.scratch, workers=4, tag='c17-' + name, coverage=(name == 'crash'))
        mc[name] = dict(states=res.distinct, transitions=res.generated, depth=res.depth, wall_s=round(res.wall, 1))
        states += res.distinct
        transitions += res.generated
        if name == 'crash':
            cov = txnlib.coverage_by_definition(res)
            if not cov.get('Recover'):
                raise MachineryError('Recover never fires in the crash configuration')
    # ---- 2. real executions ------------------------------------------------------------------------------------------------
    progs = programs(ctx)
    kinds = ['opt', 'imm', 'ser']
    items = []           # (desc, trace, python-side verdict)
    crash_points = error_points = 0
    op_kinds = set()
    for pi, prog in enumerate(progs):
        for kind in (kinds if (not quick or pi % 5 == 0) else [kinds[pi % 3]]):
            base = txnlib.run_scenario(ctx.scratch, [[session_of(copy.deepcopy(prog), kind)]], followup=False)
            if base['unexpected'] or base['errors'] or base['ends'][1][0]['result'] != 'ok':
                raise MachineryError('program %r (%s) does not run fault-free: %r %r' % (prog, kind, base['unexpected'], base['errors']))
            n = base['calls']
            items.append((dict(mode='none', prog=prog, kind=kind, k=0), base['trace'], None))
            for k in range(1, n + 1):
                # (b) injected error
                o = txnlib.run_scenario(ctx.scratch, [[session_of(copy.deepcopy(prog), kind)]], fault=(k, 'fail'), followup=False)
                error_points += 1
                evs = o['trace']['evs']
                dump = set(evs[-1]['dump']) if evs[-1]['ev'] == 'Dump' else None
                ok = dump in allowed_contents(evs)
                op_kinds.add(o['fault_hit'][1] if o['fault_hit'][1] != 'exec' else o['fault_hit'][2])
                items.append((dict(mode='error', prog=prog, kind=kind, k=k, hit=o['fault_hit']), o['trace'],
                              None if ok else 'content %r is not a unit boundary %r' % (sorted(dump or []), allowed_contents(evs))))
                # (a) crash in a child process (for programs run with all three session kinds: one kind per program, rotating)
                if kind != kinds[pi % 3]:
                    continue
                path, cevs, code = crash_run(ctx, copy.deepcopy(prog), kind, k)
                if code != 77:
                    raise MachineryError('child for %r %s k=%d exited with %r instead of dying at the fault' % (prog, kind, k, code))
                crash_points += 1
                dump = txnlib.dump_writes(path, wmap_of(cevs))
                for suffix in ('', '-journal'):
                    try:
                        os.remove(path + suffix)
                    except OSError:
                        pass
                ok = dump in allowed_contents(cevs)
                tr = dict(nthreads=1, faults=1, fowner=1,
                          evs=strip(cevs) + [dict(txnlib_event('Recover', a=2, dump=sorted(dump)))])
                items.append((dict(mode='crash', prog=prog, kind=kind, k=k, hit=(cevs[-1]['op'], cevs[-1]['kind'])), tr,
                              None if ok else 'after the crash the database contains %r, not a unit boundary %r' % (
                                  sorted(dump), allowed_contents(cevs))))
    # ---- 3. TLC validates the traces -------------------------------------------------------------------------------------------
    traces = [t for d, t, v in items]
    results = []
    B = 1500
    tstates = 0
    for i in range(0, len(traces), B):
        r, res = txnlib.validate(ctx.scratch, traces[i:i + B], tag='c17-v%d' % i)
        results += r
        tstates += res.distinct
    accepted = 0
    for (d, t, verdict), r in zip(items, results):
        if verdict is None and r['accepted']:
            accepted += 1
            if d['mode'] != 'none':
                ctx.sample({'program': d['prog'], 'session': d['kind'], 'mode': d['mode'], 'k': d['k'], 'call': d.get('hit'),
                            'content_after': t['evs'][-1]['dump']})
            continue
        if d['mode'] in ('error', 'crash') and is_setup(t):
            # the connection set-up statements of SQLitePool._connect: no write can be in flight; reported under C19
            if verdict is None:
                accepted += 0
                continue
        hit = d.get('hit')
        sig = 'C17:%s:%s@%s:%s' % (d['kind'], d['mode'], hit and (hit[-2] if hit[-1] == 'none' else hit[-1]),
                                   'content' if verdict else (r['inv'][1] if r['inv'] else 'trace-rejected'))
        ctx.mismatch(sig, 'program %r in a %s session, %s at DB-API call %d (%r): %s; trace matched %d of %d events, invariant %r, '
                     'first unmatched %r' % (d['prog'], d['kind'], d['mode'], d['k'], hit, verdict or 'content ok',
                                             r['reached'] - 1, r['len'], r['inv'],
                                             r['first_unmatched'] and txnlib.brief(r['first_unmatched'])), replay=d)
    ctx.coverage.update({
        'states': states, 'transitions': transitions, 'tlc_runs': mc,
        'traces_validated_against_impl': accepted, 'traces_executed': len(items), 'programs': len(progs),
        'crash_points': crash_points, 'error_points': error_points, 'dbapi_calls_hit': sorted(op_kinds),
        'trace_spec_states': tstates,
        'checker_cmd': 'tlc PonyTxn (Atomic, AtomicAction with Crash/Recover); tlc PonyTxnTrace',
    })
    ctx.assumptions += [
        'crash = death of the process (os._exit) inside a DB-API call, not loss of power: SQLite journal durability is trusted',
        'an injected error leaves the call without effect; SQLite file databases; PostgreSQL autocommit switching is not executed',
        'programs use one statement per operation on distinct rows so that statements can be attributed to operations',
        'a failure of the set-up statements of a new connection (SQLitePool._connect) is outside C17 (no write in flight) and is '
        'reported under C19; those error traces are not counted as validated here']


def is_setup(t):
    evs = [e for e in t['evs'] if e['ev'] == 'Db']
    for i, e in enumerate(evs):
        if e['out'] in ('fail', 'crash'):
            if e['op'] == 'exec' and e['kind'] == 'pragma' and i >= 1:
                p, p2 = evs[i - 1], evs[i - 2] if i >= 2 else evs[i - 1]
                return p['op'] == 'connect' or (p['kind'] == 'pragma' and p2['op'] == 'connect')
            return False
    return False


def txnlib_event(ev, **kw):
    from ..faultdb import EV_DEFAULTS
    e = dict(EV_DEFAULTS)
    e['ev'] = ev
    e.update(kw)
    e['closed'] = list(e['closed'])
    e['dump'] = list(e['dump'])
    return e


def replay(ctx, rep):
    prog, kind, k = rep['prog'], rep['kind'], rep['k']
    if rep['mode'] == 'crash':
        path, evs, code = crash_run(ctx, copy.deepcopy(prog), kind, k)
        dump = txnlib.dump_writes(path, wmap_of(evs))
        for i, e in enumerate(evs, 1):
            print('%3d %s' % (i, txnlib.brief(e)))
        print('child exit code', code, '; database contains writes', sorted(dump), '; unit boundaries', allowed_contents(evs))
        if dump not in allowed_contents(evs):
            ctx.violations.append('replayed')
        return
    o = txnlib.run_scenario(ctx.scratch, [[session_of(copy.deepcopy(prog), kind)]], fault=(k, 'fail') if k else None, followup=False)
    r, _ = txnlib.validate(ctx.scratch, [o['trace']], tag='c17-replay')
    for i, e in enumerate(o['trace']['evs'], 1):
        print('%3d %s' % (i, txnlib.brief(e)))
    print('verdict', r[0])
    if not r[0]['accepted']:
        ctx.violations.append('replayed')
