"""C01 - declarative queries return what evaluation of the same expression returns.

E1 (case table): spec/QuerySem.tla defines the query space Queries(depth) over a fixed schema and the meaning
RefEval of a query on a data set (three-valued comparisons, Kleene connectives, None falsy in truth tests,
set / sequence / aggregate result forms).  TLC (spec/QuerySemTables.tla) exports, for every query and each of
the 4 data sets, the rows RefEval prescribes.  The harness renders each tree to fully parenthesised Python
source and hands it to the *real* Pony in three ways - query string, eval-ed generator, eval-ed lambda - on an
in-memory SQLite database populated with the data set, and compares the rows.  An exception raised by Pony is
an accepted outcome ("raises an error instead of returning different rows").

Self-checks (MachineryError on failure): TLC checks the laws of spec/QuerySemLaws.tla (RefEval = plain Python
evaluation PyEval on None-free rows; Kleene/De Morgan); the exported expectations on the None-free data sets
must equal CPython evaluating the same source over plain Python objects.

A disagreement is attributed by TLC (spec/QuerySemJudge.tla): if the observed rows are exactly what RefEval
yields under one of the *named deviations* (recorded findings) the signature is that deviation's name,
otherwise the signature names the form and operators of the query.

quick: the whole of Queries(2) (+ the floor-division queries), exhaustive; thorough: additionally a seeded
sample of well-typed depth-3 trees, whose expected rows are computed by TLC from the JSON trees.
"""
import json
import time
import warnings
from collections import Counter
from concurrent.futures import ThreadPoolExecutor

from .. import tlc
from ..tlc import MachineryError
from .. import querysem_c01 as qs
from pony.orm import core
from pony.orm.core import db_session

LEVEL = 'exploration'

# names of the deviations QuerySem.tla can reproduce (cx.dev), in the order in which they are tried
DEVIATIONS = ['nonzero', 'strnotin', 'innerjoin', 'ordbag', 'sqldiv', 'ifexpfilter', 'notsubq']


def clear_pony_caches(db):
    for name in ('_translator_cache', '_constructed_sql_cache'):
        c = getattr(db, name, None)
        if isinstance(c, dict):
            c.clear()


def export_cases(ctx, inputs, tag, sort=True):
    data, res = tlc.evaluate('QuerySemTables', ctx.scratch, inputs=inputs, tag=tag)
    cases = data['cases']
    for c in cases:
        if not c['out']:
            raise MachineryError('a sampled tree is not well-typed under QuerySem!WellTyped: %s' % json.dumps(c['q']))
    if sort:
        cases.sort(key=lambda c: (qs.describe(c['q']), json.dumps(c['q'], sort_keys=True)))
    return data['datasets'], [k - 1 for k in data['nonefree']], cases


def cpython_selfcheck(datasets, nonefree, cases):
    """On None-free data RefEval must equal CPython's evaluation of the same source."""
    compared = undefined = 0
    for c in cases:
        q = c['q']
        for k in nonefree:
            try:
                got = qs.cpython_result(q, datasets[k])
            except qs.Undefined:
                undefined += 1
                continue
            if not qs.agrees(c['out'][k]['r'], got):
                raise MachineryError('QuerySem.RefEval disagrees with CPython on None-free data set %d for %s: spec %r, CPython %r'
                                     % (k + 1, qs.describe(q), qs.plain(qs.expected_rows(c['out'][k]['r'])), qs.plain(got)))
            if c['out'][k]['a']:
                raise MachineryError('the two readings of QuerySem differ on a None-free data set: %s' % qs.describe(q))
            compared += 1
    return compared, undefined


def run_cases(ctx, db, datasets, cases, stats):
    """Run every case the available ways on every data set; returns the list of disagreements."""
    bad = []
    for n, c in enumerate(cases):
        q = c['q']
        try:
            with warnings.catch_warnings():
                warnings.simplefilter('ignore')     # SyntaxWarning for `1 is None` in sampled trees
                ways = qs.ways_of(db, q)
        except SyntaxError as e:
            raise MachineryError('rendered source does not compile: %s (%s)' % (qs.describe(q), e))
        dead = {}
        answered = False
        string_ok = set()     # data sets on which the query-string way agreed with the specification
        for k, ds in enumerate(datasets):
            out = c['out'][k]
            for name, expr, thunk in ways:
                if name in dead:
                    continue
                try:
                    with db_session:
                        qs.load_dataset(db, ds)
                        raw = thunk()
                        got = qs.norm_result(q, raw)
                except Exception as e:     # "raises an error instead of returning different rows"
                    dead[name] = e
                    stats['raised'][type(e).__name__] += 1
                    continue
                stats['executions'] += 1
                answered = True
                if qs.agrees(out['r'], got) or (out['a'] and qs.agrees(out['a'][0], got)):
                    if name == 'string':
                        string_ok.add(k)
                    continue
                bad.append(dict(q=q, ds=k, way=name, got=got, kind=out['r']['kind'], exp=out['r'], alt=out['a'],
                                string_ok=k in string_ok))
        stats['answered' if answered else 'unanswered'] += 1
        if n % 50 == 49:
            clear_pony_caches(db)
    return bad


def judge(ctx, bad):
    """Ask TLC which named deviation (if any) reproduces each observed result."""
    if not bad:
        return []
    items = [dict(q=b['q'], ds=b['ds'] + 1, kind=b['kind'], rows=qs.tagged(b['got'])) for b in bad]
    out, _ = tlc.evaluate('QuerySemJudge', ctx.scratch, inputs={'devs': DEVIATIONS, 'items': items}, tag='judge')
    return out


def signature(b, explained):
    q = b['q']
    for d in DEVIATIONS:
        if d in explained:
            return 'C01:dev:' + d
    if b['way'] in ('generator', 'lambda') and 'ifexp' in qs.query_tags(q):
        # the same query given as a string is answered correctly, or CPython evaluates the decompiled AST differently
        # from the original code on a None-free data set: the bytecode decompiler changed the meaning of the query
        if b['string_ok'] or qs.decompiler_changes_meaning(q, b['way']):
            return 'C01:decompiler:conditional-expression'
    if qs.has_bool_operand_cmp(q['cond']) or any(qs.has_bool_operand_cmp(r) for r in q['res']):
        return 'C01:cmp:boolean-expression-operand'
    return 'C01:%s:%s' % (qs.form_of(q), '+'.join(sorted(qs.query_tags(q))))


def report(ctx, datasets, bad, verdicts):
    for b, v in zip(bad, verdicts):
        q = b['q']
        what = '%s [%s] on data set %d (T=%r, T2=%r) returned %r, expected %r%s' % (
            qs.describe(q), b['way'], b['ds'] + 1, qs.dataset_rows(datasets[b['ds']])[1], qs.dataset_rows(datasets[b['ds']])[0],
            qs.plain(b['got']), qs.plain(qs.expected_rows(b['exp'])),
            (' or %r' % qs.plain(qs.expected_rows(b['alt'][0]))) if b['alt'] else '')
        ctx.mismatch(signature(b, v), what, {'q': q, 'ds': b['ds'], 'way': b['way']})


def run(ctx):
    quick = ctx.tier == 'quick'
    t0 = time.time()
    # -- laws of the specification itself, checked by TLC (in parallel with the export of the table) -------
    pool = ThreadPoolExecutor(4)
    laws_job = pool.submit(tlc.evaluate, 'QuerySemLaws', ctx.scratch, tag='laws')

    # -- E1: the table of Queries(2) ------------------------------------------------------------------
    datasets, nonefree, cases = export_cases(ctx, {'mode': 'enum', 'depth': 2, 'div': True}, 'tables')
    laws, _ = laws_job.result()
    if not (laws['kleene'] and laws['pyeval_conds'] and laws['pyeval_exprs'] and laws['readings']):
        raise MachineryError('QuerySemLaws: a law of the specification does not hold: %r' % (laws,))
    compared, undefined = cpython_selfcheck(datasets, nonefree, cases)

    sampled = []
    if not quick:
        n, chunk = 12000, 1000
        smp = qs.Sampler(ctx.seed, allow_div=False)
        seen = set()
        trees = []
        while len(trees) < n:
            q = smp.query(3)
            key = json.dumps(q, sort_keys=True)
            if key not in seen:
                seen.add(key)
                trees.append(q)
        jobs = [pool.submit(export_cases, ctx, {'mode': 'given', 'queries': trees[i:i + chunk], 'depth': 0, 'div': False},
                            'sample%d' % i) for i in range(0, n, chunk)]
        for j in jobs:
            sampled += j.result()[2]
        c2, u2 = cpython_selfcheck(datasets, nonefree, sampled)
        compared += c2
        undefined += u2

    db = qs.make_sqlite_db()
    stats = {'raised': Counter(), 'executions': 0, 'answered': 0, 'unanswered': 0}
    allcases = cases + sampled
    bad = run_cases(ctx, db, datasets, allcases, stats)
    verdicts = judge(ctx, bad)
    report(ctx, datasets, bad, verdicts)
    db.disconnect()

    forms = Counter(qs.form_of(c['q']) for c in allcases)
    ops = set()
    for c in allcases:
        ops |= qs.query_tags(c['q'])
    nontrivial = sum(1 for c in allcases if len(set(json.dumps(o['r']['rows']) for o in c['out'])) > 1)
    for c in allcases[::max(1, len(allcases) // 5)][:5]:
        ctx.sample({'query': qs.describe(c['q']), 'expected_on_data_set_1': qs.plain(qs.expected_rows(c['out'][0]['r']))})
    ctx.coverage.update({
        'evaluations': stats['executions'],
        'distinct_nontrivial': nontrivial,
        'rule': 'evaluation = one (query, way of writing it, data set) executed by Pony on SQLite and compared with the rows TLC '
                'exported from QuerySem.RefEval; a query is counted as distinct non-trivial when its expected results differ '
                'between at least two of the 4 data sets (all queries are distinct trees)',
        'exhaustive': quick,
        'queries': len(allcases), 'queries_enumerated': len(cases), 'queries_sampled_depth3': len(sampled),
        'queries_answered': stats['answered'], 'queries_every_way_raised': stats['unanswered'],
        'ways_raised_by_exception': dict(stats['raised']),
        'forms': dict(forms), 'operators': sorted(ops), 'data_sets': len(datasets),
        'disagreements': len(bad),
        'cpython_selfcheck_compared': compared, 'cpython_selfcheck_undefined': undefined,
        'laws_checked_by_tlc': {k: laws[k] for k in ('kleene', 'pyeval_conds', 'pyeval_exprs', 'readings', 'conds', 'exprs', 'points')},
        'checker_cmd': 'tlc QuerySemLaws; tlc QuerySemTables (RefEval); tlc QuerySemJudge',
    })
    ctx.assumptions += [
        'RefEval (QuerySem.tla) is the reading of the property: 3-valued comparisons, Kleene connectives, None falsy in truth '
        'tests, aggregates ignore missing values; validated against CPython on the None-free data sets in this run',
        'membership tests: a missing tested value gives unknown, a missing element of the collection is ignored (Python defines `v not in [.., None]`)',
        'the relative position of rows whose sort key is missing is not compared',
        'any exception raised by Pony instead of an answer is accepted (counted in ways_raised_by_exception)',
    ]


def replay(ctx, rep):
    q = rep['q']
    datasets, nonefree, cases = export_cases(ctx, {'mode': 'given', 'queries': [q], 'depth': 0, 'div': False}, 'replay')
    out = cases[0]['out'][rep['ds']]
    db = qs.make_sqlite_db()
    print('query: %s   [way: %s]' % (qs.describe(q), rep['way']))
    t2, t = qs.dataset_rows(datasets[rep['ds']])
    print('data set %d: T(id,a,b,s,flag,ref)=%r T2(id,n)=%r' % (rep['ds'] + 1, t, t2))
    for name, expr, thunk in qs.ways_of(db, q):
        if name != rep['way']:
            continue
        try:
            with db_session:
                qs.load_dataset(db, datasets[rep['ds']])
                got = qs.norm_result(q, thunk())
                sql = db.last_sql
        except Exception as e:
            print('pony raises %s: %s' % (type(e).__name__, e))
            return
        print('SQL: %s' % ' '.join(sql.split()))
        print('pony returns %r' % qs.plain(got))
        print('RefEval (TLC) gives %r' % qs.plain(qs.expected_rows(out['r'])))
        if not (qs.agrees(out['r'], got) or (out['a'] and qs.agrees(out['a'][0], got))):
            ctx.violations.append('replayed')
