"""C36 - a forked process never uses its parent's database connection.

Spec: spec/PonyTxn.tla, NoForeignConnUse (ghost flag set by any DB-API action on a connection whose creator pid differs from
the acting process), with Fork enabled at every resting parent state (idle, pooled connection, suspended generator);
the fork detection modelled is Pool.connect's pid check (CN0).  With ForkInSession = TRUE (fork inside an open session)
TLC must find the violation - the check asserts that it does.
Binding V: real os.fork() at each fork point; every connection records its creator pid, every DB-API call logs
(pid, connection, op); the merged trace of both processes is validated against PonyTxn; both processes then read the
other's committed data (Dump observations inside the trace).  The generic dbapiprovider.Pool / DBAPIProvider (the classes
PostgreSQL and MySQL use) are driven the same way with a fake DB-API module (Provider = "generic")."""
import json
import os
import shutil
import sqlite3
import threading

from .. import tlc, txnlib, faultdb
from ..tlc import MachineryError
from .c17 import wmap_of, strip

from pony.orm import core, dbapiprovider
from pony.orm.core import db_session, Database

LEVEL = 'model_checking'
SKIP_MC = bool(__import__('os').environ.get('VERIF_TXN_SKIP_MC'))

IN_SESSION_POINTS = ('open-transaction', 'in-session-after-read')


def sig_for(provider, point):
    return 'C36:%s:fork@%s:child-ends-inherited-session-on-parent-connection' % (provider, point)


# ---------------------------------------------------------------------------------------------------------------------
# fake DB-API module over sqlite3 files, for the generic Pool / DBAPIProvider
# ---------------------------------------------------------------------------------------------------------------------
def make_fake_dbapi(rec):
    class FakeCursor(object):
        def __init__(self, con):
            self.con = con
            self.cur = con.real.cursor()

        def execute(self, sql, args=()):
            rec.dbcall('exec', self.con.cid, faultdb.sql_kind(sql), sql, args, lambda: self.cur.execute(sql, args))
            return self

        def executemany(self, sql, seq):
            seq = list(seq)
            rec.dbcall('exec', self.con.cid, faultdb.sql_kind(sql), sql, seq, lambda: self.cur.executemany(sql, seq))
            return self

        def fetchone(self):
            return self.cur.fetchone()

        def fetchmany(self, n):
            return self.cur.fetchmany(n)

        def fetchall(self):
            return self.cur.fetchall()

        @property
        def description(self):
            return self.cur.description

        @property
        def lastrowid(self):
            return self.cur.lastrowid

    class FakeConn(object):
        def __init__(self, path):
            self.cid = rec.new_conn_id()
            self.creator_pid = os.getpid()
            self.real = None

            def op():
                self.real = sqlite3.connect(path, timeout=0.5)      # legacy mode: DML opens a transaction implicitly
            rec.dbcall('connect', self.cid, 'none', '', (), op)
            if rec.armed:
                rec.conn_opened()

        @property
        def in_transaction(self):
            return self.real.in_transaction

        def cursor(self):
            return rec.dbcall('cursor', self.cid, 'none', '', (), lambda: FakeCursor(self))

        def commit(self):
            return rec.dbcall('commit', self.cid, 'none', '', (), self.real.commit)

        def rollback(self):
            return rec.dbcall('rollback', self.cid, 'none', '', (), self.real.rollback)

        def close(self):
            return rec.dbcall('close', self.cid, 'none', '', (), self.real.close)

    class Module(object):
        __name__ = 'fakedbapi'
        paramstyle = 'qmark'
        Warning = sqlite3.Warning
        Error = sqlite3.Error
        InterfaceError = sqlite3.InterfaceError
        DatabaseError = sqlite3.DatabaseError
        DataError = sqlite3.DataError
        OperationalError = sqlite3.OperationalError
        IntegrityError = sqlite3.IntegrityError
        InternalError = sqlite3.InternalError
        ProgrammingError = sqlite3.ProgrammingError
        NotSupportedError = sqlite3.NotSupportedError

        @staticmethod
        def connect(path):
            return FakeConn(path)
    return Module


class GenericEnv(txnlib.Env):
    """Database bound to a plain DBAPIProvider (generic Pool) over the fake DB-API module; raw SQL only."""

    def __init__(self, scratch, sink=None, path=None):
        txnlib._counter[0] += 1
        self.path = path or scratch.path('txn', 'gdb%d.sqlite' % txnlib._counter[0])
        if path is None:
            shutil.copyfile(txnlib.template_db(scratch), self.path)
        self.rec = faultdb.Recorder(sink=sink)
        self.rec.set_actor(1)
        mod = make_fake_dbapi(self.rec)

        class FakeProvider(dbapiprovider.DBAPIProvider):
            dialect = 'Fake'
            paramstyle = 'qmark'
            dbapi_module = mod
        self.db = Database()
        self.db.bind(FakeProvider, self.path)
        self.prov = self.db.provider
        self.wmap = {}

    def idle(self):
        rec = self.rec
        con = getattr(self.prov.pool, 'con', None)
        rec.emit('Idle', locked=False, pooled=con.cid if con is not None else 0,
                 in_tx=False, closed=sorted(rec.closed.get(rec.actor, [])))


# ---------------------------------------------------------------------------------------------------------------------
# fork scenarios
# ---------------------------------------------------------------------------------------------------------------------
def S(ops, kind='opt', end='return'):
    return dict(form='cm', kind=kind, attempts=[dict(ops=ops, end=end)])


def fork_scenario(ctx, provider, point, order, child_fault=None):
    """Run one fork scenario in a fresh thread; returns the merged event list (from the sink file).
    child_fault: DB-API call name; the child's first call of that kind after the fork fails (then it tries again)."""
    sink_path = ctx.scratch.path('c36', 'ev-%s-%s-%s-%s.ndjson' % (provider, point, order, child_fault))
    sink = open(sink_path, 'w')
    if provider == 'sqlite':
        env = txnlib.Env(ctx.scratch, sink=sink, timeout=0.5)
        w1, w2 = ['create'], ['raw']
    else:
        env = GenericEnv(ctx.scratch, sink=sink)
        w1, w2 = ['raw'], ['raw']
    rec = env.rec
    env.wmap = {}
    rd, wr = os.pipe()          # parent -> child: "go"
    state = {'pid': None, 'child': False}

    def do_fork():
        rec.emit('Fork', a=1, b=2)
        sink.flush()
        pid = os.fork()
        if pid == 0:
            state['child'] = True
            rec.default_actor = 2
            rec.set_actor(2)
            rec.nconn[2] = rec.nconn.get(1, 0)          # the child is a copy of the forking thread (PonyTxn.Fork):
            rec.nwrite[2] = rec.nwrite.get(1, 0)        # its counters continue, its ids are in its own range
            rec.closed[2] = []
            if child_fault:
                rec.fail_next = child_fault
            os.close(wr)
            if order == 'parent-first':
                os.read(rd, 1)                  # wait until the parent has finished
        else:
            state['pid'] = pid
            os.close(rd)
            if order == 'child-first':
                os.waitpid(pid, 0)

    def observe():
        m = wmap_of(read_events(sink_path))
        rec.emit('Dump', dump=sorted(txnlib.dump_writes(env.path, m)))

    def after(reads_only=False):
        """What each process does after the fork point: a further session, then an observation of the database."""
        if child_fault and state['child']:
            env.run_session(S([['read']]))          # fails at the injected fault; the next session must still be clean
        env.run_session(S([['read']] if reads_only else [['read'], w2]))
        observe()

    def program():
        rec.set_actor(1)
        rec.armed = True
        if point == 'idle':
            do_fork()
            after()
        elif point == 'pooled':
            env.run_session(S([w1]))
            do_fork()
            after()
        elif point == 'in-session-before-db':
            env.run_session(S([w1]))
            env.run_session(S([['call', do_fork], ['read'], w2]))
            observe()
        elif point == 'in-session-after-read':
            env.run_session(S([['read'], ['call', do_fork]]))
            after()
        elif point == 'open-transaction':
            env.run_session(S([w1, ['flush'], ['call', do_fork]]))
            # the parent still holds SQLite's write lock when the child runs first: the child then only reads
            after(reads_only=(state['child'] and order == 'child-first'))
        else:
            raise AssertionError(point)
        if state['child']:
            sink.flush()
            os._exit(0)
        if order == 'parent-first':
            os.write(wr, b'g')
            os.waitpid(state['pid'], 0)
            observe()

    err = []

    def guarded():
        try:
            program()
        except BaseException as e:      # noqa
            if state['child']:
                import traceback
                traceback.print_exc()
                os._exit(5)
            err.append(e)
    t = threading.Thread(target=guarded)
    t.start()
    t.join()
    sink.close()
    evs = read_events(sink_path)
    env.close()
    return evs, err


def child_suffix(evs):
    """For a fork inside an open session: the sessions the child starts AFTER it has ended the inherited one, as a trace
    that begins in the state 'forked child outside any session' (PonyTxnTrace child header).  Returns (trace, events) or None."""
    fork = next((i for i, e in enumerate(evs) if e['ev'] == 'Fork'), None)
    if fork is None:
        return None
    end = next((i for i in range(fork + 1, len(evs)) if evs[i]['a'] == 2 and evs[i]['ev'] == 'End'), None)
    if end is None:
        return None
    idle = next((i for i in range(end + 1, len(evs)) if evs[i]['a'] == 2 and evs[i]['ev'] == 'Idle'), None)
    start = next((i for i in range(end + 1, len(evs)) if evs[i]['a'] == 2 and evs[i]['ev'] == 'Start'), None)
    if idle is None or start is None:
        return None
    # the child's counters: the forking thread's up to the fork (the child is its copy), then the child's own
    before = [e for e in evs[:fork] if e['a'] == 1] + [e for e in evs[fork:start] if e['a'] == 2]
    nc = sum(1 for e in before if e['ev'] == 'Db' and e['op'] == 'connect' and e['out'] == 'ok')
    nwl = sum(1 for e in before if e['ev'] == 'Body' and e['op'] in ('write', 'rawwrite'))
    pooled = evs[idle]['pooled']
    owner = {e['conn']: e['a'] for e in evs if e['ev'] == 'Db' and e['op'] == 'connect'}
    if pooled and owner.get(pooled) == 2:
        return None                      # the child already pooled a connection of its own: nothing inherited is left
    suffix = [e for e in evs[start:] if e['a'] == 2 and e['ev'] != 'Dump']
    fails = [e for e in suffix if e['ev'] == 'Db' and e['out'] == 'fail']
    # the pool of a forked child holds the parent's connection together with the PARENT's pid (pid 1 of the model)
    trace = dict(nthreads=0, faults=len(fails), fowner=2, evs=strip(suffix),
                 child=dict(a=2, pool=pooled, poolPid=1 if pooled else 0, nc=nc, nwl=nwl))
    return trace, suffix


def later_foreign(evs):
    """DB-API calls of the child on the parent's connections in sessions it started itself (after the inherited one ended)."""
    owner = {e['conn']: e['a'] for e in evs if e['ev'] == 'Db' and e['op'] == 'connect'}
    fork = next((i for i, e in enumerate(evs) if e['ev'] == 'Fork'), len(evs))
    end = next((i for i in range(fork + 1, len(evs)) if evs[i]['a'] == 2 and evs[i]['ev'] == 'End'), len(evs))
    return [(e['a'], e['op'], e['conn']) for e in evs[end + 1:]
            if e['ev'] == 'Db' and e['a'] == 2 and e['op'] != 'connect' and owner.get(e['conn'], 2) != 2]


def trace_of(evs):
    fails = [e for e in evs if e['ev'] == 'Db' and e['out'] == 'fail']
    return dict(nthreads=1, faults=len(fails), fowner=fails[0]['a'] if fails else 1, evs=strip(evs))


def read_events(path):
    out = []
    with open(path) as f:
        for line in f:
            line = line.strip()
            if line:
                out.append(json.loads(line))
    return out


def pid_check(evs):
    """Independent of TLC: no DB-API call by a process on a connection another process created."""
    owner = {}
    bad = []
    for e in evs:
        if e['ev'] != 'Db':
            continue
        if e['op'] == 'connect':
            owner[e['conn']] = e['a']
        elif e['conn'] in owner and owner[e['conn']] != e['a']:
            bad.append((e['a'], e['op'], e['conn']))
    return bad


def run(ctx):
    quick = ctx.tier == 'quick'
    inv = txnlib.ALL_INV
    base = dict(NActors=2, MaxForks=1, MaxNest=1, ExcKinds='{"other"}', MaxRetry=0)
    if quick:
        cfgs = [('fork', txnlib.mc_cfg(inv, txnlib.ALL_PROP, Forms='{"cm"}', Kinds='{"opt"}', MaxWrites=1, **base)),
                ('fork-generic', txnlib.mc_cfg(inv, txnlib.ALL_PROP, Forms='{"cm"}', Kinds='{"opt"}', MaxWrites=1,
                                               Provider='"generic"', **base))]
    else:
        cfgs = [('fork', txnlib.mc_cfg(inv, txnlib.ALL_PROP, Forms='{"cm","gen"}', Kinds='{"opt","imm"}', **base)),
                ('fork-2threads', txnlib.mc_cfg(inv, txnlib.ALL_PROP, Forms='{"cm"}', Kinds='{"imm"}', MaxWrites=1, MaxOps=1,
                                                **dict(base, NActors=3, NThreads=2))),
                ('fork-generic', txnlib.mc_cfg(inv, txnlib.ALL_PROP, Forms='{"cm","gen"}', Kinds='{"opt","imm"}',
                                               Provider='"generic"', **base))]
    if SKIP_MC:
        cfgs = []      # development aid (mutant runs): the TLC runs on the spec do not depend on pony
    states = transitions = 0
    mc = {}
    for name, cfg in cfgs:
        res = tlc.model_check('PonyTxn', cfg, ctx.scratch, workers=4, tag='c36-' + name, coverage=(name == 'fork'))
        mc[name] = dict(states=res.distinct, transitions=res.generated, depth=res.depth, wall_s=round(res.wall, 1))
        states += res.distinct
        transitions += res.generated
        if name == 'fork' and not txnlib.coverage_by_definition(res).get('Fork'):
            raise MachineryError('Fork never fires in the fork configuration')
    if not SKIP_MC:
        # sensitivity of the invariant: fork inside an open session must violate NoForeignConnUse in the model
        res = tlc.run('PonyTxn', txnlib.mc_cfg(['NoForeignConnUse'], Forms='{"cm"}', Kinds='{"opt"}', MaxWrites=1, ForkInSession='TRUE',
                                               Reduce='FALSE', **base), ctx.scratch, workers=4, must_succeed=False, tag='c36-insession')
        if 'NoForeignConnUse' not in res.violated:
            raise MachineryError('PonyTxn with ForkInSession = TRUE does not violate NoForeignConnUse:\n' + tlc._tail(res.stdout, 30))
        mc['fork-in-session (violation expected and found)'] = dict(states=res.distinct, transitions=res.generated)

    # ---- real forks ------------------------------------------------------------------------------------------------------
    space, _ = tlc.evaluate('PonyTxnScenarios', ctx.scratch)
    points = sorted(space['forkpoints'])
    items = []
    for provider in ('sqlite', 'generic'):
        for point in points:
            for order in ('child-first', 'parent-first'):
                evs, err = fork_scenario(ctx, provider, point, order)
                if err and point not in IN_SESSION_POINTS:
                    raise MachineryError('fork scenario %s/%s/%s failed in the harness: %r' % (provider, point, order, err))
                items.append((dict(provider=provider, point=point, order=order), trace_of(evs), evs))
        for point in ('idle', 'pooled'):
            # the child's first connect after the fork fails, the child tries again
            evs, err = fork_scenario(ctx, provider, point, 'child-first', child_fault='connect')
            if err:
                raise MachineryError('fork scenario %s/%s with a failing connect in the child failed: %r' % (provider, point, err))
            items.append((dict(provider=provider, point=point, order='child-first', child_fault='connect'), trace_of(evs), evs))
    results = {}
    tstates = 0
    for provider in ('sqlite', 'generic'):
        sel = [i for i, it in enumerate(items) if it[0]['provider'] == provider]
        r, res = txnlib.validate(ctx.scratch, [items[i][1] for i in sel], provider=provider, tag='c36-' + provider)
        tstates += res.distinct
        for i, x in zip(sel, r):
            results[i] = x
    # sessions the child starts after it has ended an inherited session: validated from the state "forked child, idle"
    suffixes = []
    for i, (d, trace, evs) in enumerate(items):
        if d['point'] in IN_SESSION_POINTS:
            cs = child_suffix(evs)
            if cs is None:
                raise MachineryError('fork scenario %r: the child ran no session of its own after the inherited one' % (d,))
            suffixes.append((i, cs[0]))
    sres = {}
    for provider in ('sqlite', 'generic'):
        sel = [(i, t) for i, t in suffixes if items[i][0]['provider'] == provider]
        r, res = txnlib.validate(ctx.scratch, [t for i, t in sel], provider=provider, tag='c36-suffix-' + provider)
        tstates += res.distinct
        for (i, t), x in zip(sel, r):
            sres[i] = (t, x)
    child_sessions_ok = 0
    for i, (t, x) in sorted(sres.items()):
        d, _, evs = items[i]
        lf = later_foreign(evs)
        if x['accepted'] and not lf:
            child_sessions_ok += 1
            continue
        if x['accepted'] != (not lf) and not (x['inv'] or x['first_unmatched']):
            raise MachineryError('TLC and the pid check disagree on the child sessions of %r: %r vs %r' % (d, x, lf))
        ctx.mismatch('C36:%s:fork@%s:%s:child-next-session:%s' % (
            d['provider'], d['point'], d['order'], x['inv'][1] if x['inv'] else ('uses-parent-connection' if lf else 'trace-rejected')),
            'fork at %r (%s, %s runs first): the sessions the child starts after it ended the inherited session are not a behaviour of '
            'a forked idle child (its pool holds connection %r recorded with the parent\'s pid): matched %d of %d events, invariant %r, '
            'first unmatched %r; DB-API calls of these sessions on connections of the parent: %r' % (
                d['point'], d['provider'], d['order'].split('-')[0], t['child']['pool'], x['reached'] - 1, x['len'], x['inv'],
                x['first_unmatched'] and txnlib.brief(x['first_unmatched']), lf[:4]), replay=d)
    accepted = 0
    for i, (d, trace, evs) in enumerate(items):
        r = results[i]
        bad = pid_check(evs)
        if r['accepted'] and not bad:
            accepted += 1
            ctx.sample({'provider': d['provider'], 'fork_point': d['point'], 'order': d['order'], 'events': r['len'],
                        'connections': sorted({e['conn'] for e in evs if e['ev'] == 'Db'})})
            continue
        fu = r['first_unmatched'] or {}
        owner = {e['conn']: e['a'] for e in evs if e['ev'] == 'Db' and e['op'] == 'connect'}
        foreign = bool(bad) and ((r['inv'] and r['inv'][1] == 'NoForeignConnUse') or
                                 (fu.get('ev') == 'Db' and owner.get(fu.get('conn'), fu.get('a')) != fu.get('a')))
        if r['accepted'] != (not bad) and not foreign and not (bad and r['inv']):
            raise MachineryError('TLC and the pid check disagree on %r: %r vs %r' % (d, r, bad))
        what = ('fork at %r (%s, %s runs first): trace matched %d of %d events, invariant %r, first unmatched %r; DB-API calls on '
                'foreign connections (process, op, connection): %r' % (
                    d['point'], d['provider'], d['order'].split('-')[0], r['reached'] - 1, r['len'], r['inv'],
                    r['first_unmatched'] and txnlib.brief(r['first_unmatched']), bad[:4]))
        # forking with an inherited open unit: the copy's unit also trips Atomic when the parent commits first
        if d['point'] in IN_SESSION_POINTS and bad and (foreign or (r['inv'] and r['inv'][1] == 'Atomic')):
            ctx.mismatch(sig_for(d['provider'], d['point']), what, replay=d)
        else:
            ctx.mismatch('C36:%s:fork@%s:%s%s:%s' % (d['provider'], d['point'], d['order'], ':child-' + d['child_fault'] + '-fails' if d.get('child_fault') else '',
                                                  r['inv'][1] if r['inv'] else 'trace-rejected'), what, replay=d)
    ctx.coverage.update({
        'states': states, 'transitions': transitions, 'tlc_runs': mc,
        'traces_validated_against_impl': accepted + child_sessions_ok, 'traces_executed': len(items) + len(sres),
        'child_session_traces_after_inherited_session': len(sres), 'fork_points': points,
        'providers': ['sqlite (SQLitePool)', 'generic (dbapiprovider.Pool + fake DB-API module)'],
        'trace_spec_states': tstates, 'exhaustive': True,
        'checker_cmd': 'tlc PonyTxn (NoForeignConnUse with Fork); tlc PonyTxnTrace',
    })
    ctx.assumptions += [
        'fork while another thread of the parent holds the transaction lock is excluded (D8: fork-with-threads hazard)',
        'the forking thread is the only thread of the child; the two processes run alternately (handshake), not concurrently',
        'OraPool.connect (cx_Oracle session pool) is not executed: no driver; the generic Pool is driven with a fake DB-API module over sqlite files']


def replay(ctx, rep):
    evs, err = fork_scenario(ctx, rep['provider'], rep['point'], rep['order'], rep.get('child_fault'))
    for i, e in enumerate(evs, 1):
        print('%3d %s' % (i, txnlib.brief(e)))
    bad = pid_check(evs)
    print('calls on foreign connections:', bad, 'errors:', err)
    print('of these, in sessions the child started itself after the inherited one:', later_foreign(evs))
    if bad:
        ctx.violations.append('replayed')
