"""C31 - serialised and pickled objects reflect current state and round-trip.

(a) E2: spec/SerializeTables.tla exports the key space (tuples of <= 3 strings of length <= 3 over {*, ",", a}) and
    TLC checks on it that the decoder inverts the transcribed encoding (Decode(Reduce(pk)) = pk).  The real
    Bag._reduce_composite_pk is run on every key; spec/SerializeJudge.tla judges the real outputs: keys of one
    arity must be encoded pairwise distinctly.
(b) E1: TLC enumerates abstract session states (two entities G and I, composite key on G whose parts contain the
    separator, a one-to-many and a many-to-many relationship) x pending modifications and exports what
    Entity.to_dict (option combinations), the serialisation bag / to_dict() / to_json() (object lists x bag
    configurations) and unpickled objects / query results / collections must report (spec/Serialize.tla:
    ToDict, BagDict, AllAttrs).  The harness builds each state through real Pony calls on SQLite, applies the
    modifications without flushing, calls the real functions and compares; pickles are made in one db_session
    and loaded in the next.
"""
import json
import pickle

from .. import tlc
from ..tlc import MachineryError
from pony.orm import core
from pony.orm.core import db_session, Database, Required, Optional, PrimaryKey, Set, select, flush, rollback
from pony.orm import serialization

LEVEL = 'exploration'

# the entities must be importable for pickle: module level
db = Database()


class G(db.Entity):
    a = Required(str)
    b = Required(str)
    PrimaryKey(a, b)
    v = Optional(int)
    z = Optional(str, lazy=True)
    items = Set('I', reverse='g')
    tags = Set('I', reverse='gs')


class I(db.Entity):
    id = PrimaryKey(int)
    w = Optional(int)
    g = Optional(G, reverse='items')
    gs = Set(G, reverse='tags')


ENT = {'G': G, 'I': I}
COLLECTIONS = {'G': ('items', 'tags'), 'I': ('gs',)}
M2M = {('G', 'tags'), ('I', 'gs')}


def setup():
    if db.provider is None:
        db.bind('sqlite', ':memory:')
        db.generate_mapping(create_tables=True)


# ---------------------------------------------------------------------------------------------------
# TLC values -> Python
def scalar(v):
    t = v['t']
    if t == 'none':
        return None
    if t == 'int':
        return v['i']
    if t == 'str':
        return ''.join(v['s'])
    raise MachineryError('not a scalar: %r' % (v,))


def pk_of(pk):
    """primary key (sequence of tagged values) -> hashable Python form: tuple for G, int for I."""
    vals = tuple(scalar(x) for x in pk)
    return vals if len(vals) > 1 else vals[0]


def obj_of(ent, pk):
    key = pk_of(pk)
    return ENT[ent][key]


def expected_attrs(attrs):
    """set of [name, val] -> {name: ('scalar', v) | ('ref', ent, pk|None) | ('refs', ent, frozenset(pks))}"""
    out = {}
    for a in attrs:
        v = a['val']
        if v['t'] == 'ref':
            out[a['name']] = ('ref', v['ent'], pk_of(v['pk']))
        elif v['t'] == 'refs':
            out[a['name']] = ('refs', v['ent'], frozenset(pk_of(p) for p in v['pks']))
        else:
            out[a['name']] = ('scalar', scalar(v))
    return out


# ---------------------------------------------------------------------------------------------------
# building the state and applying modifications through the API
def build(S):
    with db_session:
        for t in ('G_I', 'I', 'G'):
            db.execute('DELETE FROM "%s"' % t)
    with db_session:
        for g in S['gs']:
            a, b = pk_of(g['pk'])
            G(a=a, b=b, v=scalar(g['v']), z='q')
        for i in S['is']:
            ref = i['g']
            o = I(id=i['id'], w=scalar(i['w']), g=None if ref['t'] == 'none' else G[pk_of(ref['pk'])])
            for k in i['tags']:
                o.gs.add(G[pk_of(k)])


def apply_mods(mods, via_reverse=False):
    for m in mods:
        op = m['op']
        if op == 'setv':
            G[pk_of(m['pk'])].v = scalar(m['val'])
        elif op == 'setg':
            I[m['id']].g = None if m['val']['t'] == 'none' else G[pk_of(m['val']['pk'])]
        elif op == 'addtag':
            if via_reverse:
                G[pk_of(m['pk'])].tags.add(I[m['id']])
            else:
                I[m['id']].gs.add(G[pk_of(m['pk'])])
        elif op == 'deltag':
            if via_reverse:
                G[pk_of(m['pk'])].tags.remove(I[m['id']])
            else:
                I[m['id']].gs.remove(G[pk_of(m['pk'])])
        elif op == 'newi':
            I(id=m['id'], w=scalar(m['w']), g=None if m['val']['t'] == 'none' else G[pk_of(m['val']['pk'])])
        elif op == 'deli':
            I[m['id']].delete()
        else:
            raise MachineryError('unknown modification %r' % (m,))


def mods_text(mods):
    return ', '.join('%s(%s)' % (m['op'], ', '.join('%s=%s' % (k, pk_of(v['pk']) if isinstance(v, dict) and 'pk' in v else
                                                               (pk_of(v) if k == 'pk' else (scalar(v) if isinstance(v, dict) else v)))
                                                      for k, v in sorted(m.items()) if k != 'op')) for m in mods) or 'no modification'


# ---------------------------------------------------------------------------------------------------
# comparisons; each returns a list of (kind, text) differences
def cmp_value(exp, got, related_objects):
    """exp from expected_attrs; got as Entity.to_dict returned it."""
    if exp[0] == 'scalar':
        return got == exp[1] and type(got) is type(exp[1])
    if exp[0] == 'ref':
        if exp[2] is None:
            return got is None
        if related_objects:
            return isinstance(got, ENT[exp[1]]) and got.get_pk() == exp[2]
        return got == exp[2] and not isinstance(got, core.Entity)
    if not isinstance(got, list):
        return False
    if related_objects:
        if not all(isinstance(x, ENT[exp[1]]) for x in got):
            return False
        keys = [x.get_pk() for x in got]
    else:
        if any(isinstance(x, core.Entity) for x in got):
            return False
        keys = list(got)
    return len(keys) == len(set(keys)) and set(keys) == set(exp[2])


def check_to_dict(entry, where):
    o = obj_of(entry['ent'], entry['pk'])
    opts = entry['opts']
    kw = dict(with_collections=opts['wc'], with_lazy=opts['wl'], related_objects=opts['ro'])
    if opts['only']:
        kw['only'] = list(opts['only'])
    if opts['exclude']:
        kw['exclude'] = list(opts['exclude'])
    exp = expected_attrs(entry['out'])
    call = '%s[%r].to_dict(%s)' % (entry['ent'], pk_of(entry['pk']), ', '.join('%s=%r' % x for x in sorted(kw.items())))
    shape = 'only' * bool(opts['only']) + 'exclude' * bool(opts['exclude']) or 'plain'
    try:
        got = o.to_dict(**kw)
    except Exception as e:           # noqa: Pony raising where an answer is due is the observation
        return [('C31:to_dict:%s:raises:%s' % (entry['ent'], type(e).__name__), '%s %s raised %r' % (call, where, e))]
    if set(got) != set(exp):
        return [('C31:to_dict:%s:attributes:%s' % (entry['ent'], shape),
                 '%s %s reports attributes %s, expected %s' % (call, where, sorted(got), sorted(exp)))]
    out = []
    for name, e in exp.items():
        if not cmp_value(e, got[name], opts['ro']):
            out.append(('C31:to_dict:%s.%s:value:%s' % (entry['ent'], name, 'objects' if opts['ro'] else 'keys'),
                        '%s %s reports %s = %r, the current state has %r' % (call, where, name, got[name], e[1:])))
    return out


# one defect, two symptoms: an object that was given and is also referred to by another given object is reported
# like a related object (without its collections), and the objects it refers to are not reported
GIVEN_AS_RELATED = 'C31:bag:given-object-processed-as-related-object'


def real_reduce(pk):
    return serialization.Bag(db)._reduce_composite_pk(pk)


def check_bag(entry, state_gkeys, where, use_json, via):
    """via: 'bag' (Bag object with configuration) | 'to_dict' | 'to_json' (module functions: default configuration)."""
    objs = [obj_of(o['ent'], o['pk']) for o in entry['objs']]
    cf = entry['cfg']
    as_json = use_json or via == 'to_json'
    call = '%s(%s)%s' % ({'bag': 'Bag(config=%s).to_json' % cf if use_json else 'Bag(config=%s).to_dict' % cf,
                          'to_dict': 'serialization.to_dict', 'to_json': 'serialization.to_json'}[via],
                         [(o['ent'], pk_of(o['pk'])) for o in entry['objs']], '')
    try:
        if via == 'bag':
            bag = serialization.Bag(db)
            for e in (G, I):
                bag.config(e, with_collections=cf['wc'], with_lazy=cf['wl'], related_objects=cf['ro'])
            bag.put(objs)
            got = json.loads(bag.to_json()) if use_json else bag.to_dict()
        elif via == 'to_json':
            got = json.loads(serialization.to_json(objs))
        else:
            got = serialization.to_dict(objs)
    except Exception as e:           # noqa: Pony raising where an answer is due is the observation
        return [('C31:bag:raises:%s' % type(e).__name__, '%s %s raised %r' % (call, where, e))]
    # the keys of G objects are the real encoding of the composite key: map them back through the real function
    gkey = {real_reduce(k): k for k in state_gkeys}
    diffs = []
    got_entries = {}
    for ename, d in got.items():
        for k, attrs in d.items():
            if ename == 'G':
                if k not in gkey:
                    diffs.append(('C31:bag:G:key', '%s %s has the key %r which encodes no G of the state' % (call, where, k)))
                    continue
                got_entries[('G', gkey[k])] = attrs
            else:
                got_entries[('I', int(k) if as_json else k)] = attrs
    exp_entries = {(x['ent'], pk_of(x['pk'])): x for x in entry['out']}
    if set(got_entries) != set(exp_entries):
        missing = set(exp_entries) - set(got_entries)
        as_related = len(entry['objs']) > 1 and set(got_entries) <= set(exp_entries) and not any(exp_entries[k]['given'] for k in missing)
        diffs.append((GIVEN_AS_RELATED if as_related else 'C31:bag:objects', '%s %s reports the objects %s, expected %s' % (
            call, where, sorted(got_entries, key=repr), sorted(exp_entries, key=repr))))
        return diffs
    for key, x in exp_entries.items():
        exp = expected_attrs(x['attrs'])
        attrs = got_entries[key]
        if set(attrs) != set(exp):
            missing = set(exp) - set(attrs)
            if x['given'] and missing and not (set(attrs) - set(exp)) and missing <= set(COLLECTIONS[key[0]]):
                sig = GIVEN_AS_RELATED
            else:
                sig = 'C31:bag:%s:attributes' % key[0]
            diffs.append((sig, '%s %s reports %s%r with attributes %s, expected %s (%s)' % (
                call, where, key[0], key[1], sorted(attrs), sorted(exp), 'an object that was given' if x['given'] else 'a related object')))
            continue
        for name, e in exp.items():
            g = attrs[name]
            if e[0] == 'scalar':
                ok = g == e[1]
            elif e[0] == 'ref':
                if e[2] is None:
                    ok = g is None
                elif e[1] == 'G':      # composite: the raw key (tuple / JSON list) or its encoding
                    ok = (tuple(g) == e[2]) if isinstance(g, (tuple, list)) else (gkey.get(g) == e[2])
                else:
                    ok = g == e[2]
            else:
                if not isinstance(g, list):
                    ok = False
                else:
                    keys = [gkey.get(k, ('?', k)) for k in g] if e[1] == 'G' else list(g)
                    ok = len(keys) == len(set(keys)) and set(keys) == set(e[2])
            if not ok:
                diffs.append(('C31:bag:%s.%s:value' % (key[0], name), '%s %s reports %s%r.%s = %r, the current state has %r' % (
                    call, where, key[0], key[1], name, g, e[1:])))
    return diffs


def read_attrs(o, ent):
    """all attribute values of a (unpickled) object, in the shape expected_attrs gives."""
    if ent == 'G':
        return {'a': ('scalar', o.a), 'b': ('scalar', o.b), 'v': ('scalar', o.v), 'z': ('scalar', o.z),
                'items': ('refs', 'I', frozenset(x.id for x in o.items)), 'tags': ('refs', 'I', frozenset(x.id for x in o.tags))}
    return {'id': ('scalar', o.id), 'w': ('scalar', o.w), 'g': ('scalar', None) if o.g is None else ('ref', 'G', o.g.get_pk()),
            'gs': ('refs', 'G', frozenset(x.get_pk() for x in o.gs))}


def load_one(kind, label, data, variant, exp_objs, where):
    """Unpickle one artefact in a db_session of its own and compare; -> (1 if loaded else 0, differences)."""
    diffs = []
    tag = '' if variant == 'fresh' else ':into-%s-loaded-collection' % variant.replace('partial', 'partly').replace('full', 'fully')
    with db_session:
        if variant != 'fresh':
            ent, key, attr = label[1]
            coll = getattr(ENT[ent][key], attr)
            wanted = sorted(exp_objs[(ent, key)][attr][2], key=repr)
            if variant == 'full':
                list(coll)
            elif len(wanted) < 2:
                return 0, []                 # nothing can be known "in part"
            else:
                ENT[exp_objs[(ent, key)][attr][1]][wanted[0]] in coll      # loads this one member only
        try:
            got = pickle.loads(data)
        except Exception as e:          # noqa
            return 0, [('C31:pickle:%s:loads-error%s' % (kind, tag), 'pickle.loads of %s %s raised %r' % (label, where, e))]
        if kind == 'object':
            objs = [got]
            want = [label[1]]
        elif kind == 'query':
            objs = list(got)
            want = sorted(k for k in exp_objs if k[0] == 'I')
            if [('I', o.get_pk()) for o in objs] != want:
                return 1, [('C31:pickle:query:items', 'unpickled query result %s has %s, expected %s' % (where, objs, want))]
        else:
            ent, key, attr = label[1]
            e = exp_objs[(ent, key)][attr]
            try:
                members = frozenset(x.get_pk() for x in got)
            except Exception as ex:  # noqa
                return 1, [('C31:pickle:collection:unusable' + tag, 'iterating unpickled %s%r.%s %s raised %r' % (ent, key, attr, where, ex))]
            if members != e[2]:
                lost = (ent, attr) in M2M and not members and variant == 'fresh'
                return 1, [('C31:pickle:collection:many-to-many:members-lost' if lost else 'C31:pickle:collection:%s.%s%s' % (ent, attr, tag),
                            'pickle.loads(pickle.dumps(%s[%r].%s)) in the next db_session (%s) has the members %s, the database has %s' % (
                                ent, key, attr, {'fresh': 'nothing loaded before', 'partial': 'after one member was looked up with `in`',
                                                 'full': 'after the collection was iterated'}[variant],
                                sorted(members, key=repr), sorted(e[2], key=repr)))]
            return 1, []
        for o, k in zip(objs, want):
            exp = exp_objs[k]
            try:
                got_attrs = read_attrs(o, k[0])
            except Exception as e:   # noqa
                diffs.append(('C31:pickle:%s:unusable-object' % kind, 'reading the attributes of unpickled %s%r (%s) %s raised %r' % (
                    k[0], k[1], kind, where, e)))
                continue
            for name, e in exp.items():
                if got_attrs[name] != e:
                    diffs.append(('C31:pickle:%s:%s.%s' % (kind, k[0], name),
                                  'unpickled %s%r (%s) %s has %s = %r, the committed state has %r' % (
                                      k[0], k[1], kind, where, name, got_attrs[name][1:], e[1:])))
    return 1, diffs


def check_pickles(case, pickles, where):
    """pickles: list of (kind, label, bytes | exception); each is loaded in a db_session of its own."""
    exp_objs = {(x['ent'], pk_of(x['pk'])): expected_attrs(x['attrs']) for x in case['objects']}
    diffs = []
    loaded = 0
    for kind, label, data in pickles:
        if isinstance(data, Exception):
            if isinstance(data, core.OrmError):
                continue                        # "has to be stored in DB before it can be pickled": refuses instead
            diffs.append(('C31:pickle:%s:dumps-error' % kind, 'pickle.dumps(%s) %s raised %r' % (label, where, data)))
            continue
        # a collection is also unpickled into a session that already knows part of it / all of it
        variants = ['fresh', 'partial', 'full'] if kind == 'collection' else ['fresh']
        for variant in variants:
            n, d = load_one(kind, label, data, variant, exp_objs, where)
            loaded += n
            diffs += d
    return diffs, loaded


# ---------------------------------------------------------------------------------------------------
def run_case(ctx, n, case, stats):
    S, mods = case['db'], case['mods']
    where = 'after %s on the state G=%s I=%s' % (
        mods_text(mods), [(pk_of(g['pk']), scalar(g['v'])) for g in S['gs']],
        [(i['id'], scalar(i['w']), None if i['g']['t'] == 'none' else pk_of(i['g']['pk']), sorted(pk_of(k) for k in i['tags'])) for i in S['is']])
    diffs = []
    gkeys = [pk_of(g['pk']) for g in S['gs']]
    build(S)
    # session 1: serialisation bag on pending modifications (nothing here flushes explicitly)
    bag_entries = sorted(case['bag'], key=lambda e: json.dumps(e, sort_keys=True))
    bag_entries = bag_entries[n % len(bag_entries):] + bag_entries[:n % len(bag_entries)]
    default_cfg = {'wc': True, 'wl': False, 'ro': True}
    with db_session:
        apply_mods(mods, via_reverse=bool(n % 2))
        for j, e in enumerate(bag_entries):
            diffs += check_bag(e, gkeys, where, use_json=bool((n + j) % 2), via='bag')
            stats['bag_dicts'] += 1
            if e['cfg'] == default_cfg:
                diffs += check_bag(e, gkeys, where, False, via='to_dict' if (n + j) % 2 else 'to_json')
                stats['bag_dicts'] += 1
        rollback()
    # session 2: Entity.to_dict (the first call meets the pending modifications)
    td = sorted(case['todict'], key=lambda e: json.dumps(e, sort_keys=True))
    td = td[(7 * n) % len(td):] + td[:(7 * n) % len(td)]
    with db_session:
        apply_mods(mods, via_reverse=not n % 2)
        for e in td:
            diffs += check_to_dict(e, where)
            stats['to_dicts'] += 1
        rollback()
    # session 3: pickling (before and after flush), committed on exit; sessions 4..: unpickling
    pickles = []
    with db_session:
        apply_mods(mods)
        keys = sorted(((x['ent'], pk_of(x['pk'])) for x in case['objects']), key=repr)
        if mods:
            for ent, key in keys:
                try:
                    pickles.append(('object', ('unflushed', (ent, key)), pickle.dumps(ENT[ent][key])))
                except Exception as ex:      # noqa
                    pickles.append(('object', ('unflushed', (ent, key)), ex))
        flush()
        for ent, key in keys:
            o = ENT[ent][key]
            for what, make in [(('object', ('flushed', (ent, key))), lambda: o)] + \
                    [(('collection', ('flushed', (ent, key, c))), (lambda c=c: getattr(o, c))) for c in COLLECTIONS[ent]]:
                try:
                    pickles.append(what + (pickle.dumps(make()),))
                except Exception as ex:      # noqa
                    pickles.append(what + (ex,))
        for label, make in (('slice', lambda: select(i for i in I).order_by(I.id)[:]),
                            ('fetch', lambda: select(i for i in I).order_by(I.id).fetch())):
            try:
                pickles.append(('query', label, pickle.dumps(make())))
            except Exception as ex:          # noqa
                pickles.append(('query', label, ex))
    d, loaded = check_pickles(case, pickles, where)
    diffs += d
    stats['pickles_loaded'] += loaded
    stats['pickles_refused'] += sum(1 for p in pickles if isinstance(p[2], core.OrmError))
    seen = set()
    for sig, text in diffs:
        if sig in seen:
            continue
        seen.add(sig)
        ctx.mismatch(sig, text, {'mode': 'case', 'case': case, 'n': n})
    if not diffs:
        ctx.sample({'state': where, 'checked': '%d to_dict option sets, %d bag calls, %d pickles' % (len(td), len(bag_entries), len(pickles))})
    return not diffs


def run_keys(ctx, stats):
    data, res = tlc.evaluate('SerializeTables', ctx.scratch, inputs={'tier': ctx.tier, 'part': 'keys'}, tag='SerializeKeys')
    keys = [tuple(''.join(part) for part in k) for k in data['keys']]
    bag = serialization.Bag(db)
    outs = [bag._reduce_composite_pk(k) for k in keys]
    verdict, res2 = tlc.evaluate('SerializeJudge', ctx.scratch, inputs={
        'cases': [{'pk': [list(p) for p in k], 'out': list(o)} for k, o in zip(keys, outs)]})
    bad = False
    for r in verdict['arities']:
        stats['keys_arity_%d' % r['arity']] = r['keys']
        if r['encodings'] != r['keys']:
            bad = True
            first = {}
            pair = None
            for k, o in zip(keys, outs):
                if len(k) == r['arity']:
                    if o in first:
                        pair = (first[o], k, o)
                        break
                    first[o] = k
            ctx.mismatch('C31:reduce:collision:arity=%d' % r['arity'],
                         '_reduce_composite_pk encodes %d keys of arity %d as %d strings; e.g. %r and %r both as %r' % (
                             r['keys'], r['arity'], r['encodings'], pair[0], pair[1], pair[2]), {'mode': 'keys', 'pair': [list(pair[0]), list(pair[1])]})
    stats['keys'] = len(keys)
    stats['keys_undecodable_by_spec_decoder'] = verdict['undecodable']
    if not data['decoder_ok'] and not bad:
        raise MachineryError('Serialize.Decode does not invert Serialize.Reduce although the real encoding is injective: '
                             'the transcription of _reduce_composite_pk is out of date')
    ctx.sample({'key': keys[len(keys) // 2], 'encoded': outs[len(keys) // 2]})
    return len(keys)


def run(ctx):
    setup()
    stats = {'bag_dicts': 0, 'to_dicts': 0, 'pickles_loaded': 0, 'pickles_refused': 0}
    nkeys = run_keys(ctx, stats)
    data, res = tlc.evaluate('SerializeTables', ctx.scratch, inputs={'tier': ctx.tier, 'part': 'cases'}, tag='SerializeCases')
    cases = sorted(data['cases'], key=lambda c: json.dumps([c['db'], c['mods']], sort_keys=True))
    clean = 0
    pending = 0
    for n, case in enumerate(cases):
        clean += run_case(ctx, n, case, stats)
        pending += bool(case['mods'])
    evaluations = nkeys + stats['bag_dicts'] + stats['to_dicts'] + stats['pickles_loaded'] + stats['pickles_refused']
    ctx.coverage.update({
        'evaluations': evaluations, 'distinct_nontrivial': nkeys - stats.get('keys_arity_1', 0) + pending, 'exhaustive': True,
        'rule': 'evaluations = keys encoded by the real _reduce_composite_pk + to_dict calls + bag/to_dict/to_json calls + pickles '
                'loaded or refused, each compared with the table TLC exported; distinct_nontrivial = keys of arity >= 2 (all of them '
                'contain or may contain the separator and escape characters) + (state, modification) cases with a pending modification',
        'session_cases': len(cases), 'session_cases_with_pending_modification': pending, 'session_cases_without_difference': clean,
        'counts': stats,
        'checker_cmd': 'tlc SerializeTables (Decode(Reduce(pk)) = pk; ToDict, BagDict, AllAttrs), tlc SerializeJudge (pairwise distinct encodings)',
    })
    ctx.assumptions += ['str() of key parts is the identity (string parts); integer parts are not enumerated',
                        'CPython pickle and json are trusted; objects are unpickled in a db_session after the pickling session committed',
                        'the order of a serialised collection is not compared']


def replay(ctx, rep):
    setup()
    if rep['mode'] == 'keys':
        bag = serialization.Bag(db)
        for k in rep['pair']:
            print('%r -> %r' % (tuple(k), bag._reduce_composite_pk(tuple(k))))
        ctx.violations.append('replayed')
        return
    stats = {'bag_dicts': 0, 'to_dicts': 0, 'pickles_loaded': 0, 'pickles_refused': 0}
    orig = ctx.mismatch

    def show(sig, what, replay):
        print('%s\n  %s' % (sig, what))
        ctx.violations.append(sig)
    ctx.mismatch = show
    run_case(ctx, rep['n'], rep['case'], stats)
    ctx.mismatch = orig
