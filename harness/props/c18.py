"""C18 - a db_session commits exactly when its body succeeds.

Spec: spec/PonyTxn.tla (CommitIffSuccess, RetryBound, AttemptStartsClean, OutermostOnly, OutermostAction) model-checked
over all session forms (context manager, decorator with retry, generator), kinds, nesting and body outcomes with a
DB-API fault at any call; spec/PonyTxnScenarios.tla exports the expected scalar outcome (which attempt's writes are in
the database, number of body executions, propagated exception) for every combination of form x retry x nesting x
per-attempt body outcome (E1).
Binding: (E1) every exported case is executed against the real db_session with allowed_exceptions / retry_exceptions
given as class tuples and as callables and with the strict / immediate / serializable / optimistic options;
(V) the same executions are recorded and validated as traces of PonyTxn; the Flask and Bottle integrations
(pony/flask/__init__.py, pony/orm/integration/bottle_plugin.py) run against stub modules with a fake request cycle."""
import copy
import os
import sqlite3
import sys
import warnings

from .. import tlc, txnlib
from ..tlc import MachineryError
from ..txnlib import AllowedExc, RetryExc, OtherExc, EXC

_stubs = os.path.join(os.path.dirname(os.path.dirname(os.path.abspath(__file__))), 'stubs')
if _stubs not in sys.path:
    sys.path.append(_stubs)

from pony.orm import core                                    # noqa: E402
from pony.orm.core import db_session, commit                 # noqa: E402

LEVEL = 'model_checking'
SKIP_MC = bool(__import__('os').environ.get('VERIF_TXN_SKIP_MC'))

FLASK_SIG = 'C18:flask:_exit_session:exc_type-not-passed:view-exception-commits'
EXC_NAME = {'none': 'none', 'allowed': 'AllowedExc', 'retryable': 'RetryExc', 'other': 'OtherExc',
            'CommitException': 'CommitException'}
EXPECTED_DEAD = {'LockReleaseDrop': 'reconnect path only (D3)', 'Fork': 'MaxForks = 0', 'Recover': 'AllowCrash = FALSE'}

VARIANTS = [dict(), dict(callables=True), dict(kind='imm'), dict(kind='ser'), dict(strict=True), dict(kind='nonopt'),
            dict(kind='imm', callables=True, strict=True)]


# ---------------------------------------------------------------------------------------------------------------------
# E1: scalar outcomes
# ---------------------------------------------------------------------------------------------------------------------
def session_for(case, variant):
    """The PonyTxn session description of an exported case."""
    form = case['form']
    n = case['retry'] + 1 if form == 'dec' else 1
    attempts = []
    for i in range(n):
        o = case['outs'][i]
        ops = [['create']]
        end = 'return'
        if o == 'commit-error':
            ops.append(['failcommit'])
        elif o != 'return':
            end = o
        attempts.append(dict(ops=ops, end=end))
    s = dict(form='gen' if form == 'coroutine' else form, kind=variant.get('kind', 'opt'), retry=case['retry'], dbr=False,
             callables=variant.get('callables', False), strict=variant.get('strict', False), attempts=attempts,
             coroutine=(form == 'coroutine'))
    if s['form'] == 'gen':
        a = attempts[0]
        first = [['read']] if s['kind'] == 'opt' else []     # an immediate session may not be suspended inside its transaction
        s['attempts'] = [dict(segments=[first, a['ops']], end=a['end'])]
        if s['kind'] == 'ser':
            s['kind'] = 'imm'       # serializable is rejected for generators (checked separately)
    return s


def run_case(ctx, case, variant):
    """Execute one case under the recorder (single thread); returns (observed scalar outcome, trace, outcome dict)."""
    s = session_for(case, variant)
    if case['nest'] == 2:
        outer = dict(form='cm', kind=s['kind'] if s['kind'] in ('imm', 'ser', 'ddl') else 'opt', noallowed=True,
                     attempts=[dict(ops=[['nestsession', s]], end='return')])
        sessions = [outer]
    else:
        sessions = [s]
    o = txnlib.run_scenario(ctx.scratch, [sessions], followup=False)
    evs = o['trace']['evs']
    end = o['ends'][1][0]
    dump = set(evs[-1]['dump']) if evs and evs[-1]['ev'] == 'Dump' else set()
    # writes per attempt: the k-th BodyStart's writes
    per = []
    for e in evs:
        if e['ev'] == 'BodyStart' and not (case['nest'] == 2 and not per and False):
            per.append(set())
        elif e['ev'] == 'Body' and e['op'] in ('write', 'rawwrite') and per:
            per[-1].add(e['w'])
    if case['nest'] == 2:
        per = per[1:]               # the outer body's BodyStart
        runs = len(per)
    else:
        runs = end['runs']
    committed = sorted(i + 1 for i, ws in enumerate(per) if ws and ws <= dump)
    partial = [i + 1 for i, ws in enumerate(per) if ws & dump and not ws <= dump]
    exc = {'ok': 'none', 'allowed': 'allowed', 'retryable': 'retryable', 'other': 'other', 'base': 'base', 'commitexc': 'CommitException'}.get(
        end['result'], end['result'])
    return dict(runs=runs, committed=committed, exc=exc, partial=partial), o


def e1(ctx, table):
    quick = ctx.tier == 'quick'
    cases = sorted(table, key=lambda r: (r['in']['form'], r['in']['retry'], r['in']['nest'], r['in']['outs']))
    n = 0
    traces = []
    for i, row in enumerate(cases):
        case, exp = row['in'], row['out']
        variants = [VARIANTS[i % len(VARIANTS)]] if quick else VARIANTS
        for v in variants:
            if case['form'] in ('gen', 'coroutine') and v.get('kind') == 'ser':
                continue
            got, o = run_case(ctx, case, v)
            n += 1
            exp_n = dict(runs=exp['runs'], committed=sorted(exp['committed']), exc=exp['exc'], partial=[])
            if o['unexpected'] or o['errors']:
                raise MachineryError('case %r failed in the harness: %r %r' % (case, o['unexpected'], o['errors']))
            if got != exp_n:
                ctx.mismatch('C18:%s:retry=%d:nest=%d:%s:%s' % (case['form'], case['retry'], case['nest'], '/'.join(case['outs'][:case['retry'] + 1]),
                                                              diff_fields(got, exp_n)),
                             'db_session %r with options %r: expected %r, observed %r' % (case, v, exp_n, got),
                             replay=dict(mode='e1', case=case, variant=v))
            else:
                ctx.sample({'case': case, 'options': v, 'outcome': got})
            if case['nest'] == 1:
                traces.append((dict(mode='e1', case=case, variant=v), o['trace']))
    return n, traces


def diff_fields(a, b):
    return '+'.join(k for k in sorted(a) if a[k] != b[k])


# ---------------------------------------------------------------------------------------------------------------------
# generator sessions that write before suspending, with another session of the same thread in between
# ---------------------------------------------------------------------------------------------------------------------
def gen_cases(ctx, gtable):
    """Returns (#executions, [(desc, trace)] of the runs without an interleaved session - those are valid PonyTxn traces)."""
    n = 0
    traces = []
    for row in sorted(gtable, key=lambda r: (r['in']['imm'], r['in']['end1'], r['in']['final'])):
        c, exp = row['in'], row['out']
        for interleave in (False, True):
            seg1 = [['create']] + ([[c['end1']]] if c['end1'] != 'none' else [])
            sess = dict(form='gen', kind='imm' if c['imm'] else 'opt',
                        attempts=[dict(segments=[seg1, [['raw']]], end='return' if c['final'] == 'return' else c['final'])])
            env = txnlib.Env(ctx.scratch)
            rec = env.rec
            env.wmap = {}
            inter = {'ran': False, 'w': set()}
            if interleave:
                def between(env=env, inter=inter):
                    before = len(env.rec.events)
                    env.run_session(dict(form='cm', kind='opt', attempts=[dict(ops=[['create']], end='return')]))
                    inter['ran'] = True
                    inter['w'] = {e['w'] for e in env.rec.events[before:] if e['ev'] == 'Body' and e['op'] == 'write'}
                sess['between'] = between
            box = {}
            import threading

            def work():
                rec.set_actor(1)
                rec.armed = True
                box['end'] = env.run_session(sess)
                rec.armed = False
            t = threading.Thread(target=work)
            t.start()
            t.join()
            dump = env.dump()
            rec.emit('Dump', a=1, dump=sorted(dump))
            n += 1
            evs = rec.events
            # writes of the generator body per segment (the interleaved session's are in inter['w'])
            segw = [set(), set()]
            k = 0
            for e in evs:
                if e['ev'] == 'Body' and e['op'] == 'yield':
                    k = 1
                elif e['ev'] == 'Body' and e['op'] in ('write', 'rawwrite') and e['w'] not in inter['w']:
                    segw[k].add(e['w'])
            ends = [e for e in evs if e['ev'] == 'End']
            gen_end = ends[-1]
            got = dict(suspended=any(e['ev'] == 'Resume' for e in evs),
                       committed=sorted(i + 1 for i, ws in enumerate(segw) if ws and ws <= dump),
                       partial=[i + 1 for i, ws in enumerate(segw) if ws & dump and not ws <= dump],
                       exc={'ok': 'none'}.get(gen_end['result'], gen_end['result']),
                       other_session_committed=(inter['w'] <= dump) if inter['ran'] else None)
            want = dict(suspended=exp['suspended'], committed=sorted(exp['committed']), partial=[], exc=exp['exc'],
                        other_session_committed=True if (interleave and exp['suspended']) else None)
            desc = dict(mode='gen', case=c, interleave=interleave)
            if got != want:
                ctx.mismatch('C18:gen:imm=%s:%s-before-yield:final=%s:interleaved=%s:%s' % (
                    c['imm'], c['end1'], c['final'], interleave, diff_fields(got, want)),
                    'generator db_session %r (another session of the thread while suspended: %r): expected %r, observed %r' % (
                        c, interleave, want, got), replay=desc)
            else:
                ctx.sample({'generator_case': c, 'interleaved_session': interleave, 'outcome': got})
                if not interleave:
                    traces.append((desc, dict(nthreads=1, faults=0, fowner=1,
                                              evs=[{k2: v for k2, v in ev.items() if not k2.startswith('_')} for ev in evs])))
            env.close()
    return n, traces


# ---------------------------------------------------------------------------------------------------------------------
# option validation of db_session (constructor / entry errors stated by the property's quantifier)
# ---------------------------------------------------------------------------------------------------------------------
def option_errors(ctx):
    checks = 0

    def expect(exc_cls, fn, what):
        nonlocal checks
        checks += 1
        try:
            fn()
        except exc_cls:
            return
        except Exception as e:
            ctx.mismatch('C18:options:%s' % what, '%s: expected %s, got %r' % (what, exc_cls.__name__, e), replay=dict(mode='opt', what=what))
            return
        ctx.mismatch('C18:options:%s' % what, '%s: expected %s, nothing raised' % (what, exc_cls.__name__), replay=dict(mode='opt', what=what))

    def gen():
        yield 1
    expect(TypeError, lambda: db_session(retry=1).__enter__(), 'retry-on-context-manager')
    expect(TypeError, lambda: db_session(retry=1)(gen), 'retry-on-generator')
    expect(TypeError, lambda: db_session(serializable=True)(gen), 'serializable-on-generator')
    expect(TypeError, lambda: db_session(ddl=True)(gen), 'ddl-on-generator')
    expect(TypeError, lambda: db_session(ddl=True, retry=1), 'ddl-with-retry')
    expect(TypeError, lambda: db_session(retry=-1), 'negative-retry')
    expect(TypeError, lambda: db_session(allowed_exceptions=[ValueError], retry_exceptions=[ValueError]), 'same-exception-in-both-lists')

    def nested(inner_kw):
        def f():
            with db_session:
                with db_session(**inner_kw):
                    pass
        return f
    expect(core.TransactionError, nested(dict(ddl=True)), 'ddl-inside-non-ddl')
    expect(core.TransactionError, nested(dict(serializable=True)), 'serializable-inside-non-serializable')
    return checks


# ---------------------------------------------------------------------------------------------------------------------
# Flask / Bottle glue on stub modules
# ---------------------------------------------------------------------------------------------------------------------
def glue(ctx, table):
    """Runs the real pony.flask / bottle_plugin code with a fake request cycle; returns [(desc, trace)] and count."""
    import flask as flask_stub
    import bottle as bottle_stub
    if not getattr(flask_stub, '__file__', '').startswith(_stubs) or not getattr(bottle_stub, '__file__', '').startswith(_stubs):
        raise MachineryError('a real flask/bottle is importable; the glue check is written for the stub modules')
    import pony.flask as pony_flask
    from pony.orm.integration import bottle_plugin
    exp = {(r['in']['form'], r['in']['outs'][0]): r['out'] for r in table if r['in']['retry'] == 0 and r['in']['nest'] == 1}
    out = []
    n = 0
    app = flask_stub.Flask()
    pony_flask.Pony(app)
    bapp = bottle_stub.Bottle()
    bapp.install(bottle_plugin.PonyPlugin())
    plans = [('flask', 'return', None), ('flask', 'other', OtherExc('view failed')),
             ('bottle', 'return', None), ('bottle', 'allowed', bottle_stub.HTTPResponse('redirect', 303)),
             ('bottle', 'other', bottle_stub.HTTPError(404, 'nope')), ('bottle', 'other', OtherExc('callback failed'))]
    for fw, outcome, exc in plans:
        env = txnlib.Env(ctx.scratch)
        rec = env.rec
        env.wmap = {}
        import threading
        box = {}

        def view():
            rec.emit('BodyStart')
            env.run_ops([['create'], ['raw']])
            if exc is None:
                rec.emit('BodyEnd', out='ok')
                return 'page'
            rec.emit('BodyEnd', out=outcome)
            raise exc

        def work():
            rec.set_actor(1)
            rec.armed = True
            rec.emit('Start', form='cm' if fw == 'flask' else 'dec', kind='opt', retry=0, dbr=False)
            result = 'ok'
            try:
                if fw == 'flask':
                    app.handle(view)
                else:
                    bapp.handle(view)
            except BaseException as e:
                result = outcome if e is exc else txnlib.kind_of(e)
            rec.emit('End', result=result, runs=1)
            env.idle()
            rec.armed = False
            box['result'] = result
        t = threading.Thread(target=work)
        t.start()
        t.join()
        dump = env.dump()
        rec.emit('Dump', a=1, dump=sorted(dump))
        n += 1
        writes = {e['w'] for e in rec.events if e['ev'] == 'Body' and e['op'] in ('write', 'rawwrite')}
        e = exp[('cm' if fw == 'flask' else 'dec', outcome)]
        want_commit = bool(e['committed'])
        got_commit = writes <= dump
        partial = bool(writes & dump) and not got_commit
        want_exc = 'ok' if e['exc'] == 'none' else e['exc']
        desc = dict(mode='glue', fw=fw, outcome=outcome, exc=type(exc).__name__ if exc else None)
        if got_commit != want_commit or partial or box['result'] != want_exc:
            sig = FLASK_SIG if (fw == 'flask' and outcome == 'other' and got_commit and not partial and box['result'] == want_exc) else \
                'C18:%s:%s:commit=%s:exc=%s' % (fw, outcome, got_commit, box['result'])
            ctx.mismatch(sig, '%s request whose handler ends with %r (%s): writes %r, database afterwards %r, propagated %r; required: '
                         'committed=%r, exception=%r' % (fw, outcome, desc['exc'], sorted(writes), sorted(dump), box['result'],
                                                          want_commit, want_exc), replay=desc)
        else:
            ctx.sample({'integration': fw, 'handler': outcome, 'exception': desc['exc'], 'committed': got_commit})
            out.append((desc, dict(nthreads=1, faults=0, fowner=1,
                                   evs=[{k: v for k, v in ev.items() if not k.startswith('_')} for ev in rec.events])))
        env.close()
    return n, out


# ---------------------------------------------------------------------------------------------------------------------
def run(ctx):
    quick = ctx.tier == 'quick'
    warnings.simplefilter('ignore')
    install_nested_op()
    # ---- 1. TLC on the specification -----------------------------------------------------------------------------------
    if quick:
        cfgs = [('sessions', txnlib.mc_cfg(txnlib.ALL_INV, txnlib.ALL_PROP, ExcKinds='{"allowed","retryable","other","base"}'), True)]
    else:
        cfgs = [('sessions', txnlib.mc_cfg(txnlib.ALL_INV, txnlib.ALL_PROP, MaxRetry=2, MaxOps=3, MaxSess=2), True),
                ('two-faults', txnlib.mc_cfg(txnlib.ALL_INV, txnlib.ALL_PROP, MaxFaults=2, Forms='{"dec"}', MaxRetry=2), False)]
    if SKIP_MC:
        cfgs = []      # development aid (mutant runs): the TLC runs on the spec do not depend on pony
    states = transitions = 0
    mc = {}
    for name, cfg, cov in cfgs:
        res = tlc.model_check('PonyTxn', cfg, ctx.scratch, workers=4, coverage=cov, tag='c18-' + name)
        mc[name] = dict(states=res.distinct, transitions=res.generated, depth=res.depth, wall_s=round(res.wall, 1))
        states += res.distinct
        transitions += res.generated
        if cov:
            from .c19 import check_coverage
            check_coverage(res)
    # ---- 2. expected values from the spec ------------------------------------------------------------------------------------
    space, _ = tlc.evaluate('PonyTxnScenarios', ctx.scratch)
    table = space['c18']
    ncases, traces = e1(ctx, table)
    ngen, gentraces = gen_cases(ctx, space['c18gen'])
    traces += gentraces
    nopt = option_errors(ctx)
    nglue, gtraces = glue(ctx, table)
    traces += gtraces
    # ---- 3. trace validation ----------------------------------------------------------------------------------------------------
    results = []
    tstates = 0
    B = 1500
    tl = [t for d, t in traces]
    for i in range(0, len(tl), B):
        r, res = txnlib.validate(ctx.scratch, tl[i:i + B], tag='c18-v%d' % i)
        results += r
        tstates += res.distinct
    accepted = 0
    for (d, t), r in zip(traces, results):
        if r['accepted']:
            accepted += 1
            continue
        ctx.mismatch('C18:trace:%s:%s' % (d.get('case', d).get('form', d.get('fw', d.get('mode'))), r['inv'][1] if r['inv'] else 'rejected'),
                     'trace of %r matched %d of %d events; invariant %r; first unmatched %r' % (
                         d, r['reached'] - 1, r['len'], r['inv'], r['first_unmatched'] and txnlib.brief(r['first_unmatched'])), replay=d)
    ctx.coverage.update({
        'states': states, 'transitions': transitions, 'tlc_runs': mc,
        'traces_validated_against_impl': accepted, 'traces_executed': len(traces),
        'e1_cases_in_spec_table': len(table), 'e1_executions': ncases, 'generator_suspension_cases': ngen, 'option_checks': nopt, 'glue_requests': nglue,
        'trace_spec_states': tstates, 'exhaustive': True,
        'checker_cmd': 'tlc PonyTxn (CommitIffSuccess, RetryBound, AttemptStartsClean, OutermostOnly); tlc PonyTxnScenarios (E1 table); tlc PonyTxnTrace',
    })
    ctx.assumptions += [
        'Flask and Bottle are not installed: harness/stubs/flask and harness/stubs/bottle.py reproduce only the callback protocol '
        '(before_request / teardown_request(exception); plugin.apply(callback, route))',
        'commit-time errors are injected as sqlite3.OperationalError raised by Connection.commit()',
        'body outcome "allowed" on generator / coroutine sessions: the spec permits (does not require) a commit; pony rolls back']


def install_nested_op():
    """Body operation that runs a whole session (the case under test) inside the current one."""
    if getattr(txnlib.Env, '_nested_installed', False):
        return
    orig = txnlib.Env.run_ops

    def run_ops(self, ops):
        for op in ops:
            if op[0] == 'nestsession':
                run_inner(self, op[1])
            else:
                orig(self, [op])
    txnlib.Env.run_ops = run_ops
    txnlib.Env._nested_installed = True


def run_inner(env, s):
    """The inner session of a nest = 2 case: executed with the real db_session forms; the trace is not validated for these
    (the decorator form inside a session is a plain call, D-named in the spec), only the scalar outcome."""
    rec = env.rec
    kw = env.session_kwargs(s)
    runs = [0]

    def body():
        att = s['attempts'][min(runs[0], len(s['attempts']) - 1)]
        runs[0] += 1
        rec.emit('BodyStart')
        env.run_ops([o for o in att['ops'] if o[0] != 'failcommit'])
        if att['end'] != 'return':
            raise EXC[att['end']]('inner body raises')
    if s['form'] == 'cm':
        kw.pop('retry', None)
        with db_session(**kw):
            body()
    else:
        db_session(**kw)(body)()


def replay(ctx, rep):
    install_nested_op()
    warnings.simplefilter('ignore')
    space, _ = tlc.evaluate('PonyTxnScenarios', ctx.scratch)
    if rep['mode'] == 'e1':
        got, o = run_case(ctx, rep['case'], rep['variant'])
        exp = [r['out'] for r in space['c18'] if r['in'] == rep['case']]
        for i, e in enumerate(o['trace']['evs'], 1):
            print('%3d %s' % (i, txnlib.brief(e)))
        print('observed', got, 'expected', exp)
        if not exp or got != dict(runs=exp[0]['runs'], committed=sorted(exp[0]['committed']), exc=exp[0]['exc'], partial=[]):
            ctx.violations.append('replayed')
    elif rep['mode'] == 'gen':
        gen_cases(ctx, [r for r in space['c18gen'] if r['in'] == rep['case']])
        if ctx.violations:
            ctx.violations.append('replayed')
    elif rep['mode'] == 'glue':
        n, tr = glue(ctx, space['c18'])
        if ctx.violations or ctx.known_hit:
            ctx.violations.append('replayed')
    else:
        option_errors(ctx)
