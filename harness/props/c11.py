"""C11 - decided by spec/PonySession.tla: TLC checks the specification's invariants and action properties
exhaustively in the bounded model; behaviours of the exported state graph are replayed into the real ORM on
SQLite (harness/session.py) and this property's comparator decides (see harness/session_check.py)."""
from .. import session_check, session_replay, cascade_c13, refresh_c11

LEVEL = 'model_checking'


def run(ctx):
    session_check.run(ctx, 'C11')
    # spec/PonyCascade.tla: a delete refused midway through a cascade (three entities, two collections)
    quick = ctx.tier == 'quick'
    res, stats, found, nedges, nvisited = cascade_c13.run(ctx, 1500 if quick else 12000, 6 if quick else 8, ctx.seed)
    for what, trace in found:
        last = trace[-1]
        ctx.mismatch('C11:cascade:%s:%s:%s' % (last.get('op'), last.get('e'), last.get('out')), what, {'cascade_trace': trace})
    ctx.coverage['states'] += res.distinct
    ctx.coverage['transitions'] += res.generated
    ctx.coverage['traces_validated_against_impl'] += stats['behaviours']
    ctx.coverage['cascade_model'] = dict(stats, graph_transitions=nedges, graph_transitions_replayed=nvisited)
    # spec/PonyRefresh.tla: cached objects refreshed by rows that another transaction changed (IndexRight)
    res, stats, found = refresh_c11.run(ctx, 1200 if quick else 12000, 2 if quick else 4)
    refresh_c11.report(ctx, 'C11', res, stats, found)


def replay(ctx, rep):
    if 'refresh_trace' in rep:
        refresh_c11.replay(ctx, rep)
        ctx.violations.append('replayed')
        return
    if 'cascade_trace' in rep:
        cascade_c13.replay(ctx, rep)
        ctx.violations.append('replayed')
        return
    session_replay.replay(ctx, rep)
