"""C08 - validation enforces declared attribute constraints.

E1 (case table): spec/ValidateTables.tla exports, for every declaration  kind(type, options)  of the bounded
declaration space of spec/Validate.tla, (a) whether Pony must refuse the declaration when the entity is
defined/mapped, and (b) for every candidate value (around and across every declared bound, None, '', wrong
types) whether it is accepted, which declared constraints it breaks, and the normalised value the attribute
must hold.  TLC first checks the laws Validate.tla states about itself on that space.

The harness defines one real entity per declaration on an in-memory SQLite database and drives the entry
points the property names with every candidate value:
    ctor     T(a=v)                       assign   obj.a = v              set      obj.set(a=v)
    get      T.get(a=v)                   select   T.select(a=v)[:]
Accepted: no exception and the attribute holds the normalised value / the lookup returns exactly the object
that was created with v.  Rejected: an exception (any class) is raised.
Self-check: the symbolic integer order and Strip of the spec are compared with CPython first.
"""
import gc
from decimal import Decimal

from .. import tlc
from ..tlc import MachineryError
from pony import orm
from pony.orm import core
from pony.orm.core import db_session

LEVEL = 'exploration'

PYTYPES = {'int': int, 'float': float, 'dec': Decimal, 'str': str, 'bool': bool}
# the fixed py_check predicate of Validate.tla (operator Check), written in Python
CHECKS = {'int': lambda v: v != 1, 'float': lambda v: v != 1, 'dec': lambda v: v != 1,
          'str': lambda v: v != 'b', 'bool': lambda v: v is True}
TRI = {'true': True, 'false': False}
# sql_default literals per type (any valid literal of the column type will do: the property is about validation)
SQL_DEFAULTS = {'int': '7', 'float': '7.5', 'dec': '7.25', 'str': "'dflt'", 'bool': '1'}
ENTRIES = ('ctor', 'assign', 'set', 'get', 'select')


# ---------------------------------------------------------------------------------------------------
# spec values <-> Python values
def to_py(v):
    t = v['t']
    if t == 'none':
        return None
    if t == 'int':
        e, o = v['e'], v['o']
        return (0 if e == 0 else (1 if e > 0 else -1) * 2 ** abs(e)) + o
    if t == 'float':
        return v['h'] / 2.0
    if t == 'dec':
        return Decimal(v['u']).scaleb(-v['s'])
    if t == 'str':
        return ''.join(v['s'])
    if t == 'bool':
        return bool(v['b'])
    raise MachineryError('unknown value tag %r' % (v,))


def holds(got, exp):
    """does the attribute hold the expected normalised value `exp` (a spec value)?"""
    t = exp['t']
    want = to_py(exp)
    if t == 'none':
        return got is None
    if t == 'bool':
        return type(got) is bool and got == want
    if t == 'int':
        return type(got) is int and got == want
    if t == 'float':
        return isinstance(got, float) and got == want
    if t == 'dec':
        return isinstance(got, Decimal) and got == want
    return type(got) is str and got == want


def decl_src(d):
    """the declaration in Pony syntax (for messages and samples)"""
    args = [{'dec': 'Decimal'}.get(d['type'], d['type'])]
    if d['nullable'] != 'absent':
        args.append('nullable=%s' % TRI[d['nullable']])
    for k in ('min', 'max'):
        if d[k]['has']:
            args.append('%s=%d' % (k, d[k]['v']))
    if d['size']:
        args.append('size=%d' % d['size'])
    if d['unsigned']:
        args.append('unsigned=True')
    if d['maxlen']:
        args.append('max_len=%d' % d['maxlen'])
    if d['strip'] != 'absent':
        args.append('autostrip=%s' % TRI[d['strip']])
    if d['check']:
        args.append('py_check=<%s>' % {'str': "v != 'b'", 'bool': 'v is True'}.get(d['type'], 'v != 1'))
    if d['supplied'] == 'sql_default':
        args.append('sql_default=%r' % SQL_DEFAULTS[d['type']])
    elif d['supplied'] != 'absent':
        args.append('%s=True' % d['supplied'])
    return '%s(%s)' % (d['kind'], ', '.join(args))


def options_of(d):
    kw = {}
    if d['nullable'] != 'absent':
        kw['nullable'] = TRI[d['nullable']]
    for k in ('min', 'max'):
        if d[k]['has']:
            kw[k] = d[k]['v']
    if d['size']:
        kw['size'] = d['size']
    if d['unsigned']:
        kw['unsigned'] = True
    if d['maxlen']:
        kw['max_len'] = d['maxlen']
    if d['strip'] != 'absent':
        kw['autostrip'] = TRI[d['strip']]
    if d['check']:
        kw['py_check'] = CHECKS[d['type']]
    if d['supplied'] == 'sql_default':
        kw['sql_default'] = SQL_DEFAULTS[d['type']]
    elif d['supplied'] != 'absent':
        kw[d['supplied']] = True
    return kw


def build(d):
    """Define and map the entity for declaration d on a fresh in-memory SQLite database."""
    db = core.Database()
    try:
        attr = getattr(orm, d['kind'])(PYTYPES[d['type']], **options_of(d))
        if d['kind'] == 'PrimaryKey':
            ns = {'a': attr, 'z': orm.Optional(int)}
        else:
            ns = {'id': orm.PrimaryKey(int), 'a': attr}
        T = type(db.Entity)('T', (db.Entity,), ns)
        db.bind('sqlite', ':memory:')
        db.generate_mapping(create_tables=True)
    except BaseException:
        _drop(db)
        raise
    return db, T


def _drop(db):
    try:
        if db.provider is not None:
            db.disconnect()
    except Exception:
        pass


# ---------------------------------------------------------------------------------------------------
# the entry points
class Outcome(object):
    __slots__ = ('accepted', 'exc', 'ok_value', 'detail')

    def __init__(self, accepted, exc=None, ok_value=True, detail=None):
        self.accepted, self.exc, self.ok_value, self.detail = accepted, exc, ok_value, detail


def new_obj(T, is_pk, v, ident):
    return T(a=v) if is_pk else T(id=ident, a=v)


def run_case(T, d, case, base):
    """Runs all entry points for one (declaration, value). Returns {entry: Outcome}."""
    is_pk = d['kind'] == 'PrimaryKey'
    v = to_py(case['v'])
    exp_acc = case['acc']
    norm = case['norm']
    out = {}
    # None accepted for an attribute whose value the database supplies (sql_default / volatile / auto): the stored
    # value is then not None. Nothing is flushed (whether the database really can supply one is not the property's business)
    # and the lookups only have to accept the value.
    db_supplies = v is None and exp_acc and d['supplied'] != 'absent'

    # -- constructor, then lookups ------------------------------------------------------------------
    with db_session:
        try:
            obj = None
            try:
                obj = new_obj(T, is_pk, v, 2)
            except Exception as e:
                out['ctor'] = Outcome(False, type(e).__name__)
            else:
                out['ctor'] = Outcome(True, None, holds(obj.a, norm), repr(obj.a))
            flushed = False
            if obj is not None and exp_acc and not db_supplies:
                try:
                    core.flush()
                    flushed = True
                except Exception as e:
                    out['ctor'] = Outcome(False, 'flush:' + type(e).__name__)
            if exp_acc and not flushed and not db_supplies:
                pass            # the value could not even be stored: the lookups have nothing to find
            else:
                if obj is not None and (not exp_acc or db_supplies):
                    # a wrongly accepted object must not be found by the lookups below; an object waiting for a
                    # database-supplied value must not be flushed by them
                    core.rollback()
                    obj = None
                try:
                    got = T.get(a=v)
                except Exception as e:
                    out['get'] = Outcome(False, type(e).__name__)
                else:
                    out['get'] = Outcome(True, None, got is obj if (exp_acc and not db_supplies) else True, repr(got))
                try:
                    got = T.select(a=v)[:]
                except Exception as e:
                    out['select'] = Outcome(False, type(e).__name__)
                else:
                    out['select'] = Outcome(True, None, (len(got) == 1 and got[0] is obj) if (exp_acc and not db_supplies) else True, repr(got))
        finally:
            core.rollback()

    # -- assignment and set() on an existing object -------------------------------------------------
    with db_session:
        try:
            # primary keys cannot change: an accepted value is re-assigned to the object that has it
            start = case['v'] if (is_pk and exp_acc) else base
            if is_pk and db_supplies:
                start = None        # a key that is still to be supplied cannot be (re)assigned
            if start is not None:
                try:
                    obj = new_obj(T, is_pk, to_py(start), 1)
                except Exception:
                    obj = None      # reported through the constructor entry point of that value
                if obj is not None:
                    for entry in ('assign', 'set'):
                        try:
                            if entry == 'assign':
                                obj.a = v
                            else:
                                obj.set(a=v)
                        except Exception as e:
                            out[entry] = Outcome(False, type(e).__name__)
                        else:
                            out[entry] = Outcome(True, None, holds(obj.a, norm), repr(obj.a))
                        if not is_pk:
                            try:
                                obj.a = to_py(start)      # back to the starting value for the next entry point
                            except Exception:
                                break
        finally:
            core.rollback()
    return out


def signature(d, case, entry, oc):
    ty = d['type']
    why = sorted(case['why'])
    if not case['acc'] and oc.accepted:
        if why in (['min'], ['max']):
            return 'C08:%s:bound=%d:%s' % (ty, d[why[0]]['v'], why[0])
        if why == ['type'] and ty == 'bool':
            return 'C08:bool:non-bool-accepted'
        return 'C08:%s:accepted-despite:%s:%s' % (ty, '+'.join(why), entry)
    if case['acc'] and not oc.accepted:
        return 'C08:%s:valid-value-rejected:%s:%s' % (ty, entry, oc.exc)
    if entry in ('get', 'select'):
        return 'C08:%s:lookup-misses-accepted-value:%s' % (ty, entry)
    return 'C08:%s:wrong-normalised-value:%s' % (ty, entry)


def describe(d, case, entry, oc):
    v = to_py(case['v'])
    call = {'ctor': 'T(a=%r)', 'assign': 'obj.a = %r', 'set': 'obj.set(a=%r)', 'get': 'T.get(a=%r)',
            'select': 'T.select(a=%r)[:]'}[entry] % (v,)
    if not case['acc'] and oc.accepted:
        return 'a = %s: %s is accepted (result %s) although the value breaks the declared %s' % (
            decl_src(d), call, oc.detail, ', '.join(sorted(case['why'])))
    if case['acc'] and not oc.accepted:
        return 'a = %s: %s raises %s although the value satisfies every declared constraint' % (decl_src(d), call, oc.exc)
    if entry in ('get', 'select'):
        return 'a = %s: %s returns %s instead of the object created with that value' % (decl_src(d), call, oc.detail)
    return 'a = %s: after %s the attribute holds %s, expected %r' % (decl_src(d), call, oc.detail, to_py(case['norm']))


def pick_base(row):
    """a value to create the object with whose attribute is then assigned: an accepted non-None candidate
    if there is one, else None when None is accepted"""
    accepted = [c for c in row['cases'] if c['acc']]
    for c in sorted(accepted, key=lambda c: repr(sorted(c['v'].items()))):
        if c['v']['t'] != 'none':
            return c['v']
    return accepted[0]['v'] if accepted else None


def check_row(ctx, row, counters):
    d = row['decl']
    try:
        db, T = build(d)
    except Exception as e:
        defined, exc = False, type(e).__name__
    else:
        defined, exc = True, None
    counters['evaluations'] += 1
    if row['def'] == 'reject':
        counters['def_reject_expected'] += 1
        if defined:
            _drop(db)
            ctx.mismatch('C08:%s:contradictory-declaration-accepted' % d['type'],
                         'a = %s is accepted at definition time although the options are contradictory or unsupported'
                         % decl_src(d), {'decl': d, 'entry': 'define', 'expected': 'reject'})
        else:
            counters['nontrivial'].add(('def', decl_src(d)))
        return
    if not defined:
        ctx.mismatch('C08:%s:valid-declaration-rejected:%s' % (d['type'], exc),
                     'a = %s cannot be defined: %s' % (decl_src(d), exc), {'decl': d, 'entry': 'define', 'expected': 'ok'})
        return
    try:
        base = pick_base(row)
        for case in sorted(row['cases'], key=lambda c: repr(sorted(c['v'].items()))):
            outcomes = run_case(T, d, case, base)
            for entry, oc in outcomes.items():
                counters['evaluations'] += 1
                counters['by_entry'][entry] = counters['by_entry'].get(entry, 0) + 1
                good = (oc.accepted == case['acc']) and (not case['acc'] or oc.ok_value)
                if not good:
                    ctx.mismatch(signature(d, case, entry, oc), describe(d, case, entry, oc),
                                 {'decl': d, 'case': case, 'entry': entry, 'base': base})
            if case['nontrivial']:
                counters['nontrivial'].add((decl_src(d), repr(sorted(case['v'].items()))))
            if case['nontrivial'] and d['type'] not in counters['sampled'] and len(case['why']) + len(options_of(d)) >= 2:
                counters['sampled'].add(d['type'])
                ctx.sample({'declaration': decl_src(d), 'value': repr(to_py(case['v'])), 'accepted': case['acc'],
                            'breaks': case['why'], 'normalised': repr(to_py(case['norm'])),
                            'entry_points_run': sorted(outcomes)})
    finally:
        _drop(db)


def self_check(tables):
    for p in tables['numpairs']:
        if (to_py(p['a']) < to_py(p['b'])) != p['lt']:
            raise MachineryError('Validate.NumLt disagrees with CPython integers on %r' % (p,))
    for r in tables['strip']:
        if ''.join(r['s']).strip() != ''.join(r['out']):
            raise MachineryError('Validate.Strip disagrees with str.strip on %r' % (r,))


def run(ctx):
    tables, res = tlc.evaluate('ValidateTables', ctx.scratch, inputs={'tier': ctx.tier})
    self_check(tables)
    rows = sorted(tables['rows'], key=lambda r: repr(sorted(r['decl'].items())))
    counters = {'evaluations': 0, 'def_reject_expected': 0, 'nontrivial': set(), 'by_entry': {}, 'sampled': set()}
    for i, row in enumerate(rows):
        check_row(ctx, row, counters)
        if i % 200 == 199:
            gc.collect()
    ctx.coverage.update({
        'evaluations': counters['evaluations'],
        'distinct_nontrivial': len(counters['nontrivial']),
        'exhaustive': True,
        'declarations': len(rows),
        'declarations_rejected_at_definition': counters['def_reject_expected'],
        'value_cases': sum(len(r['cases']) for r in rows),
        'checks_by_entry_point': counters['by_entry'],
        'spec_laws_checked_by_tlc': tables['laws'],
        'rule': 'evaluation = one (declaration, candidate value, entry point) executed against the real entity, or one '
                'declaration expected to be refused at definition time. The space is DeclsOf(tier) x Cands(decl) of '
                'Validate.tla, enumerated completely by TLC. A (declaration, value) pair is non-trivial when a declared option '
                'decides it: the same kind/type without value options answers differently, or the accepted value is changed '
                'by normalisation (computed in TLA+: ValidateTables.Case.nontrivial); refused declarations count once each.',
        'checker_cmd': 'tlc ValidateTables (Validate.Accepts / Violated / Normalised / DefRejected + laws)',
    })
    ctx.assumptions += [
        'executed on in-memory SQLite only (DefRejected uses Uint64Support = FALSE); other providers share the same converter base classes',
        'float attributes are offered int-valued and half-valued floats only; Decimal candidates have scale 2; precision/scale of Decimal '
        'are not among the constraints the property lists',
        'numeric strings for int attributes and ints for bool attributes are not offered (undocumented coercions, neither required nor forbidden)',
        'py_check is the fixed predicate Validate.Check, mirrored in Python in harness/props/c08.py:CHECKS',
        'a rejection is any exception raised by the entry point; exception classes are recorded, not compared',
    ]


def replay(ctx, rep):
    """Re-executes one reported case against the current tree; exit 1 iff the disagreement is still there."""
    d = rep['decl']
    print('declaration: a = %s' % decl_src(d))
    try:
        db, T = build(d)
    except Exception as e:
        print('definition raises %s: %s   (specification expects: %s)' % (type(e).__name__, e, rep.get('expected', 'ok')))
        if rep.get('expected', 'ok') != 'reject':
            ctx.violations.append('replayed')
        return
    if rep['entry'] == 'define':
        print('definition succeeds   (specification expects: %s)' % rep.get('expected'))
        _drop(db)
        if rep.get('expected') == 'reject':
            ctx.violations.append('replayed')
        return
    case = rep['case']
    outcomes = run_case(T, d, case, rep.get('base'))
    for entry in ENTRIES:
        oc = outcomes.get(entry)
        if oc is None:
            continue
        print('%-7s value %r -> %s%s' % (entry, to_py(case['v']), 'accepted, result ' + str(oc.detail) if oc.accepted else 'raises ' + str(oc.exc),
                                         '   <== reported' if entry == rep['entry'] else ''))
    print('specification: %s; breaks %s; normalised value %r' % ('accepted' if case['acc'] else 'rejected', case['why'], to_py(case['norm'])))
    _drop(db)
    oc = outcomes.get(rep['entry'])
    if oc is None or oc.accepted != case['acc'] or (case['acc'] and not oc.ok_value):
        ctx.violations.append('replayed')
