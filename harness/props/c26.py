"""C26 - generated schemas are well formed and match the entity model.

spec/Schema.tla maps an entity diagram to an abstract schema (tables; columns with nullability; primary key;
unique sets; indexes; foreign keys with on-delete action) or to "rejected", and contains a transcription of
Pony's name generation with max_name_len as a parameter.  spec/SchemaTables.tla enumerates the bounded space
of diagrams and exports, for every backend configuration, what is expected.  The space includes entities whose
primary key is, or contains, a reference (x = PrimaryKey(A); PrimaryKey(owner, no)): the key columns are also
the child columns of a foreign key, which the catalog must show with its parent columns and on-delete action
like the one of any other reference, and for which no separate index exists when they lead the primary key.

E1 (real SQLite, max_name_len 1024 and an artificial 8): every diagram is declared through Pony's real API
(the class statements are generated from the diagram and exec'ed), `generate_mapping(create_tables=True)` runs
against a scratch database file, the catalog is read back through an independent sqlite3 connection
(pragma table_info / index_list / index_info / foreign_key_list) and compared with the abstract schema;
`db.check_tables()` must pass; diagrams the spec rejects must be refused by Pony with an error of its own.
E2 (PostgreSQL / MySQL / Oracle provider classes without a server, their real limits and the artificial 8):
the real generate_mapping builds the DBSchema object; its names (tables, columns, indexes, constraints) are
judged by TLC (spec/SchemaJudge.tla: lengths, distinctness under the backend's identifier comparison).
"""
import os
import sqlite3
from collections import Counter
from concurrent.futures import ThreadPoolExecutor

from .. import mockdb, tlc
from ..tlc import MachineryError
from pony.orm import core
from pony.orm.dbapiprovider import DBException

LEVEL = 'translation_validation'

CFGS = [
    dict(dialect='SQLite', maxlen=1024, full=True, provider='sqlite', real=True),
    dict(dialect='SQLite', maxlen=8, full=True, provider='sqlite', real=True),
    dict(dialect='PostgreSQL', maxlen=63, full=False, provider='postgres', real=False),
    dict(dialect='MySQL', maxlen=64, full=False, provider='mysql', real=False),
    dict(dialect='Oracle', maxlen=30, full=False, provider='oracle', real=False),
    dict(dialect='PostgreSQL', maxlen=8, full=False, provider='postgres', real=False),
    dict(dialect='MySQL', maxlen=8, full=False, provider='mysql', real=False),
    dict(dialect='Oracle', maxlen=8, full=False, provider='oracle', real=False),
]

REJECTION = (core.OrmError, TypeError, NotImplementedError, ValueError, AttributeError)


def nm(x):
    return ''.join(x)


# ---------------------------------------------------------------------------------------------------
# diagram -> Python source using Pony's declaration API
def _idx_kw(ix):
    k = ix['k']
    if k == 'none':
        return []
    if k == 'true':
        return ['index=True']
    if k == 'false':
        return ['index=False']
    return ['index=%r' % nm(ix['n'])]


def _cols_kw(cols, single='column', multi='columns'):
    if not cols:
        return []
    if len(cols) == 1:
        return ['%s=%r' % (single, nm(cols[0]))]
    return ['%s=%r' % (multi, [nm(c) for c in cols])]


def _nullable_kw(nl):
    return [] if nl == 'none' else ['nullable=%s' % (nl == 'true')]


def render(d):
    """Source text of the entity declarations of diagram d (db is the Database)."""
    ents = d['ents']
    rels = d['rels']
    explicit_discr = {}
    for i, e in enumerate(ents):
        if any(a['kind'] == 'Discriminator' for a in e['attrs']):
            explicit_discr[i + 1] = True

    def root(i):
        while ents[i - 1]['base']:
            i = ents[i - 1]['base']
        return i
    def ref(i, name):
        """how the class body of entity i names an attribute: inherited ones through the class that declares them"""
        j = i
        while True:
            e = ents[j - 1]
            own = any(a['name'] == name for a in e['attrs']) or any(
                me['ent'] == j and me['name'] == name for r in rels for me in ((r['a'],) if r['sym'] else (r['a'], r['b'])))
            if own or not e['base']:
                break
            j = e['base']
        return nm(name) if j == i else '%s.%s' % (nm(ents[j - 1]['name']), nm(name))
    lines = []
    for i, e in enumerate(ents, 1):
        base = nm(ents[e['base'] - 1]['name']) if e['base'] else 'db.Entity'
        lines.append('class %s(%s):' % (nm(e['name']), base))
        body = []
        if e['table']:
            body.append('_table_ = %r' % nm(e['table']))
        if root(i) in explicit_discr:
            body.append('_discriminator_ = %d' % i)
        for a in e['attrs']:
            opts = [a['type']]
            if a['unique']:
                opts.append('unique=True')
            opts += _nullable_kw(a['nullable']) + _idx_kw(a['index'])
            if a['column']:
                opts.append('column=%r' % nm(a['column']))
            body.append('%s = %s(%s)' % (nm(a['name']), a['kind'], ', '.join(opts)))
        for r in rels:
            sides = [(r['a'], r['b'])] if r['sym'] else [(r['a'], r['b']), (r['b'], r['a'])]
            for me, ot in sides:
                if me['ent'] != i:
                    continue
                opts = [repr(nm(ents[ot['ent'] - 1]['name'])), 'reverse=%r' % nm(ot['name'])]
                opts += _nullable_kw(me['nullable']) + _idx_kw(me['index']) + _cols_kw(me['columns'])
                opts += _cols_kw(me['rcolumns'], 'reverse_column', 'reverse_columns')
                if me['cascade'] != 'none':
                    opts.append('cascade_delete=%s' % (me['cascade'] == 'true'))
                if me['table']:
                    opts.append('table=%r' % nm(me['table']))
                body.append('%s = %s(%s)' % (nm(me['name']), me['kind'], ', '.join(opts)))
        if e['pk']:
            body.append('PrimaryKey(%s)' % ', '.join(ref(i, x) for x in e['pk']))
        for k in e['ckeys']:
            body.append('composite_key(%s)' % ', '.join(ref(i, x) for x in k))
        for k in e['cidx']:
            body.append('composite_index(%s)' % ', '.join(ref(i, x) for x in k))
        if not body:
            body.append('pass')
        lines += ['    ' + b for b in body]
    return '\n'.join(lines) + '\n'


_NS = {k: getattr(core, k) for k in ('Required', 'Optional', 'PrimaryKey', 'Set', 'Discriminator', 'composite_key',
                                      'composite_index')}


def classify(exc):
    if isinstance(exc, DBException):
        return 'backend-error'
    if isinstance(exc, REJECTION):
        return 'rejected'
    return 'crash-' + type(exc).__name__


# ---------------------------------------------------------------------------------------------------
# running the real code
def schema_names(db):
    """Names of the DBSchema object the real generate_mapping built, in the shape Schema.NamesOf has."""
    tables = []
    for t in db.schema.tables.values():
        objs = []
        for ix in t.indexes.values():
            if ix.is_pk or ix.name is None:
                continue
            objs.append({'kind': 'unique' if ix.is_unique else 'index', 'on': [list(c.name) for c in ix.columns],
                         'name': list(ix.name)})
        for fk in t.foreign_keys.values():
            if fk.name is not None:
                objs.append({'kind': 'fk', 'on': [list(c.name) for c in fk.child_columns], 'name': list(fk.name)})
        name = t.name if isinstance(t.name, str) else t.name[-1]
        tables.append({'name': list(name), 'cols': [list(c.name) for c in t.column_list], 'objs': objs})
    return tables


def q(name):
    return '"' + name.replace('"', '""') + '"'


def read_catalog(path):
    """The schema as the database sees it, through a connection of our own."""
    con = sqlite3.connect(path)
    try:
        out = {}
        names = [r[0] for r in con.execute("select name from sqlite_master where type = 'table' and name not like 'sqlite_%'")]
        for t in names:
            info = con.execute('pragma table_info(%s)' % q(t)).fetchall()
            cols = {r[1]: bool(r[3]) or r[5] > 0 for r in info}
            pk = [r[1] for r in sorted((r for r in info if r[5] > 0), key=lambda r: r[5])]
            uniques, indexes = [], []
            for r in con.execute('pragma index_list(%s)' % q(t)).fetchall():
                iname, unique, origin = r[1], r[2], r[3]
                icols = tuple(x[2] for x in sorted(con.execute('pragma index_info(%s)' % q(iname)).fetchall()))
                if origin == 'pk':
                    continue
                if unique:
                    uniques.append(icols)
                else:
                    indexes.append((iname, icols))
            fks = {}
            for r in con.execute('pragma foreign_key_list(%s)' % q(t)).fetchall():
                fk = fks.setdefault(r[0], {'table': r[2], 'pairs': [], 'ondelete': r[6]})
                fk['pairs'].append((r[3], r[4]))
            out[t] = dict(cols=cols, pk=pk, uniques=uniques, indexes=indexes, fks=list(fks.values()))
        return out
    finally:
        con.close()


def run_real(ctx, src, cfg, n):
    """-> (outcome, detail): outcome 'accepted' (detail = catalog, schema names) | 'rejected' | 'backend-error' | 'crash-X'."""
    path = ctx.scratch.path('c26', 'db%d.sqlite' % n)
    if os.path.exists(path):
        os.remove(path)
    db = core.Database()
    try:
        try:
            exec(src, dict(_NS, db=db))
            db.bind('sqlite', path, create_db=True)
            db.provider.max_name_len = cfg['maxlen']
            db.generate_mapping(create_tables=True)
        except Exception as e:       # noqa: the family of the exception is the observation
            return classify(e), '%s: %s' % (type(e).__name__, e)
        try:
            db.check_tables()
        except Exception as e:       # noqa
            return 'check-tables-failed', '%s: %s' % (type(e).__name__, e)
        names = schema_names(db)
    finally:
        try:
            core.rollback()
            if db.provider is not None:
                db.disconnect()
        except Exception:            # noqa
            pass
    cat = read_catalog(path)
    os.remove(path)
    return 'accepted', (cat, names)


def run_mock(src, cfg):
    db = mockdb.MockDatabase()
    try:
        exec(src, dict(_NS, db=db))
        db.bind(cfg['provider'])
        db.provider.max_name_len = cfg['maxlen']
        db.generate_mapping()
    except Exception as e:           # noqa
        return classify(e), '%s: %s' % (type(e).__name__, e)
    return 'accepted', (None, schema_names(db))


# ---------------------------------------------------------------------------------------------------
# comparing the catalog with the abstract schema TLC exported
def compare(exp, cat):
    diffs = []
    etabs = {nm(t['name']): t for t in exp['tables']}
    if set(etabs) != set(cat):
        diffs.append('tables: expected %s, database has %s' % (sorted(etabs), sorted(cat)))
        return diffs
    for tname, t in sorted(etabs.items()):
        c = cat[tname]
        ecols = {nm(x['name']): x['notnull'] for x in t['cols']}
        if ecols != c['cols']:
            diffs.append('%s columns (name: NOT NULL): expected %s, database has %s' % (tname, ecols, c['cols']))
            continue
        epk = {nm(x) for x in t['pk']}
        if epk != set(c['pk']):
            diffs.append('%s primary key: expected %s, database has %s' % (tname, sorted(epk), c['pk']))
        euniq = {frozenset(nm(x) for x in u['cols']) for u in t['uniques']}
        cuniq = {frozenset(u) for u in c['uniques']}
        if euniq != cuniq:
            diffs.append('%s unique sets: expected %s, database has %s' % (tname, sorted(map(sorted, euniq)), sorted(map(sorted, cuniq))))
        declared = [(tuple(nm(x) for x in i['cols']), nm(i['name']) if i['explicit'] else None) for i in t['idx']]
        fkidx_ok = [(tuple(nm(x) for x in f['cols']), nm(f['iname']) if f['explicit'] else None) for f in t['fks'] if f['indexed']]
        # the indexes the schema has for the sake of a foreign key: none where the key or a declared index leads with its columns
        fkidx = [(tuple(nm(x) for x in f['cols']), nm(f['name']) if f['explicit'] else None) for f in t['fkidx']]
        rest = list(c['indexes'])
        for cols, name in declared:
            hit = [r for r in rest if r[1] == cols and (name is None or r[0] == name)]
            if not hit:
                diffs.append('%s: declared index on %s%s missing; database has %s' % (tname, cols, ' named %s' % name if name else '', c['indexes']))
            else:
                rest.remove(hit[0])
        for r in rest:
            if not any(r[1] == cols and (name is None or r[0] == name) for cols, name in fkidx_ok):
                diffs.append('%s: index %s on %s was not declared and serves no foreign key' % (tname, r[0], r[1]))
            elif not any(r[1] == cols and (name is None or r[0] == name) for cols, name in fkidx):
                diffs.append('%s: index %s on %s repeats the leading columns of the primary key, a unique set or a declared index'
                             % (tname, r[0], r[1]))
        lookups = [tuple(c['pk'])] + [tuple(u) for u in c['uniques']] + [r[1] for r in c['indexes']]
        for cols, name in fkidx_ok:
            if not any(l[:len(cols)] == cols for l in lookups):
                diffs.append('%s: foreign key columns %s are not indexed' % (tname, cols))
        efks = sorted((sorted(zip((nm(x) for x in f['cols']), (nm(x) for x in f['pcols']))), nm(f['ptable']), f['ondelete'])
                      for f in t['fks'])
        cfks = sorted((sorted(f['pairs']), f['table'], f['ondelete']) for f in c['fks'])
        if efks != cfks:
            diffs.append('%s foreign keys (column pairs, parent, on delete): expected %s, database has %s' % (tname, efks, cfks))
    return diffs


# ---------------------------------------------------------------------------------------------------
def cfg_tag(cfg):
    return '%s/%d' % (cfg['dialect'], cfg['maxlen'])


def signature(cfg, kind, d, exp, extra=''):
    if exp['status'] == 'mapped' and 'columns' in exp['problems'] and 'length' not in exp['problems'] and \
            (kind == 'backend-error' or (kind == 'unusable-names' and extra == ':columns')):
        # two columns of one table whose names differ by letter case only, on a backend that ignores case
        return 'C26:%s:case-colliding-column-names' % cfg['dialect']
    if exp['status'] == 'mapped' and kind == 'crash-AssertionError' and 'm2m-default-name-is-an-entity-table' in exp['notes']:
        # an entity whose table is called like the default link table of a relationship declared before it
        return 'C26:m2m-default-table-name-taken-by-later-entity:AssertionError'
    if exp['status'] == 'rejected' and sorted(exp['reasons']) == ['primary-key-contains-itself'] and kind == 'crash-RecursionError':
        # an entity whose primary key is made from the primary key of the same entity (directly or through another entity)
        return 'C26:primary-key-contains-itself:RecursionError'
    why = ''
    if exp['status'] == 'rejected':
        why = '+'.join(sorted(exp['reasons']))
    elif not exp['names_ok']:
        why = 'names=' + '+'.join(sorted(exp['problems']))
    return 'C26:%s:%s:%s:%s%s' % (cfg_tag(cfg), kind, d['fam'], why or 'mappable', extra)


def spec_cfg(c):
    return {'dialect': c['dialect'], 'maxlen': c['maxlen'], 'full': c['full'], 'exec': c['real']}


FAMILY_GROUPS = [['scalar', 'composite', 'relation', 'relation-in-key', 'inheritance', 'inheritance-rel', 'inheritance-key'],
                 ['m2m', 'm2m-self', 'm2m-names', 'names-case', 'names-long-m2m', 'shared-table'],
                 ['names-long'],
                 ['pk-reference', 'pk-reference-composite', 'pk-reference-chain', 'pk-reference-cycle']]


def tlc_cases(ctx):
    """Expected outcomes of every diagram for every configuration (a few TLC runs side by side)."""
    spec_cfgs = [spec_cfg(c) for c in CFGS]

    def one(k):
        data, res = tlc.evaluate('SchemaTables', ctx.scratch, tag='SchemaTables-%d' % k,
                                 inputs={'tier': ctx.tier, 'cfgs': spec_cfgs, 'fams': FAMILY_GROUPS[k]})
        return data['cases']
    with ThreadPoolExecutor(len(FAMILY_GROUPS)) as pool:
        parts = list(pool.map(one, range(len(FAMILY_GROUPS))))
    return [c for p in parts for c in p]


def tlc_judge(ctx, cases):
    chunks = [cases[lo:lo + 3000] for lo in range(0, len(cases), 3000)]

    def one(k):
        out, res = tlc.evaluate('SchemaJudge', ctx.scratch, tag='SchemaJudge-%d' % k, inputs={'cases': chunks[k]})
        return out
    verdict = {}
    with ThreadPoolExecutor(3) as pool:
        for out in pool.map(one, range(len(chunks))):
            for r in out:
                verdict[r['id']] = sorted(r['problems'])
    return verdict


def judge_and_report(ctx, pending, stats):
    """pending: list of (d, src, cfg, exp, outcome, detail). Real names of the accepted ones are judged by TLC."""
    cases = []
    for n, (d, src, cfg, exp, outcome, detail) in enumerate(pending):
        if outcome == 'accepted':
            cases.append({'id': n, 'cfg': spec_cfg(cfg), 'd': d, 'tables': detail[1]})
    verdict = tlc_judge(ctx, cases)
    stats['names_judged'] += len(cases)
    for n, (d, src, cfg, exp, outcome, detail) in enumerate(pending):
        rep = {'d': d, 'cfg': {k: cfg[k] for k in ('dialect', 'maxlen', 'provider', 'real')}, 'expected': exp}
        where = '%s (max_name_len %d%s)' % (cfg['dialect'], cfg['maxlen'], '' if cfg['real'] else ', provider classes without a server')
        head = 'declarations\n%s on %s: ' % (src, where)
        if outcome == 'accepted':
            stats['accepted'] += 1
            if exp['status'] == 'rejected':
                ctx.mismatch(signature(cfg, 'accepted-unmappable', d, exp),
                             head + 'Pony accepts them, but no schema exists: %s' % sorted(exp['reasons']), rep)
                continue
            problems = verdict[n]
            if problems:
                ctx.mismatch(signature(cfg, 'unusable-names', d, exp, ':' + '+'.join(problems)),
                             head + 'the generated names are not usable on the backend (%s): %s' % (', '.join(problems), [
                                 (nm(t['name']), [nm(c) for c in t['cols']], [nm(o['name']) for o in t['objs']]) for t in detail[1]]), rep)
                continue
            if not exp['names_ok']:
                stats['predicted_collision_but_fine'] += 1
            if cfg['real']:
                diffs = compare(exp, detail[0])
                stats['catalogs_compared'] += 1
                if diffs:
                    ctx.mismatch(signature(cfg, 'schema-differs', d, exp), head + '; '.join(diffs), rep)
                    continue
                if len(exp['tables']) > 1 or any(t['fks'] or t['uniques'] or t['idx'] for t in exp['tables']):
                    stats['nontrivial_catalogs'] += 1
                for t in exp['tables']:
                    if not t['m2m'] and any(set(map(nm, f['cols'])) <= set(map(nm, t['pk'])) for f in t['fks']):
                        stats['catalogs_with_foreign_key_inside_primary_key'] += 1
                        break
            ctx.sample({'declarations': src, 'backend': where, 'outcome': 'accepted; names usable' +
                        ('; catalog equals the abstract schema; check_tables passed' if cfg['real'] else '')})
        elif outcome == 'rejected' or (outcome == 'crash-AssertionError' and exp['status'] == 'rejected'):
            stats['rejected'] += 1
            if exp['status'] == 'rejected':
                stats['rejected_as_expected'] += 1
            elif not exp['names_ok']:
                stats['rejected_for_predicted_name_problem'] += 1
            else:
                ctx.mismatch(signature(cfg, 'rejected-mappable', d, exp, ':' + detail.split(':')[0]),
                             head + 'Pony refuses them (%s) although they denote a schema with usable names' % detail, rep)
        else:
            stats['failed'] += 1
            ctx.mismatch(signature(cfg, outcome, d, exp),
                         head + 'neither mapped nor rejected by Pony: %s (%s)' % (outcome, detail), rep)


def run(ctx):
    cases = tlc_cases(ctx)
    if not cases:
        raise MachineryError('SchemaTables exported no diagrams')
    stats = Counter()
    fams = Counter()
    pending = []
    n = 0
    for case in cases:
        d = case['d']
        fams[d['fam']] += 1
        src = render(d)
        for cfg, exp in zip(CFGS, case['exp']):
            n += 1
            if cfg['real']:
                outcome, detail = run_real(ctx, src, cfg, 0)
            else:
                outcome, detail = run_mock(src, cfg)
            pending.append((d, src, cfg, exp, outcome, detail))
            stats['exp_' + exp['status'] + ('' if exp['status'] == 'rejected' or exp['names_ok'] else '_names_not_ok')] += 1
    judge_and_report(ctx, pending, stats)
    ctx.coverage.update({
        'programs': len(cases), 'disagreements_checked': n, 'exhaustive': True,
        'diagrams_by_family': dict(fams), 'configurations': [cfg_tag(c) + ('' if c['real'] else ' (no server)') for c in CFGS],
        'outcomes': {k: v for k, v in sorted(stats.items())},
        'rule': 'program = one entity diagram of SchemaTables.tla; each is declared through the real API and mapped for '
                'every configuration; disagreements_checked = (diagram, configuration) pairs whose outcome was compared '
                'with Schema.Expected',
        'checker_cmd': 'tlc SchemaTables (Schema.Expected), tlc SchemaJudge (Schema.NameProblems on real names)',
    })
    ctx.assumptions += [
        'identifier comparison of the backends as in Schema.Fold/FoldTable: SQLite case-insensitive; MySQL columns, indexes and '
        'constraints case-insensitive, tables case-sensitive; PostgreSQL and Oracle exact because Pony quotes every name',
        'PostgreSQL, MySQL and Oracle: only what Pony computes (DBSchema object: names, columns) is checked; no DDL is executed there',
        'names the declaration fixes itself (column=, _table_, table=, index=name, classtype) are exempt from the length rule',
        'SQL types and column order are not part of the abstract schema',
    ]


def replay(ctx, rep):
    d, cfg, exp = rep['d'], rep['cfg'], rep['expected']
    src = render(d)
    print('declarations:\n%s' % src)
    print('backend: %s max_name_len=%d' % (cfg['dialect'], cfg['maxlen']))
    if cfg['real']:
        outcome, detail = run_real(ctx, src, cfg, 0)
    else:
        outcome, detail = run_mock(src, cfg)
    print('expected by Schema.tla: %s' % ({k: v for k, v in exp.items() if k != 'tables'},))
    if outcome == 'accepted':
        cat, names = detail
        print('Pony accepted; names: %s' % [(nm(t['name']), [nm(c) for c in t['cols']], [nm(o['name']) for o in t['objs']]) for t in names])
        if cat is not None and exp['status'] == 'mapped':
            print('catalog: %s' % cat)
            print('differences: %s' % compare(exp, cat))
    else:
        print('Pony: %s (%s)' % (outcome, detail))
    ctx.violations.append('replayed')
