"""C02 - the same query over the same data gives the same answer on every dialect.

E2 (translation validation): every query of the C01 space (spec/QuerySem.tla) is translated by the *real*
translator classes of sqlite / postgres / mysql / oracle (harness/mockdb.py: no server, import-only driver
stubs); the SQL AST handed to the builder is serialised (harness/sqlast.py: ser_select) and TLC evaluates it
with spec/SqlSem.tla!EvalSelect under that dialect's semantics on the C01 data sets and compares the rows with
QuerySem!RefEval (spec/DialectJudge.tla).  The real translator output is judged by the specification.

Only dialect behaviour that lives in the translator / SQL AST is decided, under a hand-written model of the
dialects; SQL *text* is never executed on PostgreSQL/MySQL/Oracle (no servers here).  For SQLite the model is
validated on every run: the text Pony's real builder renders is executed on a real SQLite database and the
rows are compared with what SqlSem computes for the same AST (disagreement = MachineryError).
"""
import datetime
import json
import re
import warnings
from collections import Counter
from concurrent.futures import ThreadPoolExecutor

from .. import mockdb, sqlast, tlc
from ..tlc import MachineryError
from .. import querysem_c01 as qs
from . import c01
from pony.orm.core import db_session

LEVEL = 'translation_validation'

PROVIDERS = ['sqlite', 'postgres', 'mysql', 'oracle']
# data sets judged per dialect: Oracle cannot store '' (outside "the value domain every backend stores exactly")
DATASETS = {'sqlite': [1, 2, 3, 4], 'postgres': [1, 2, 3, 4], 'mysql': [1, 2, 3, 4], 'oracle': [2, 4]}
# quick tier: the two data sets with missing values for PostgreSQL / MySQL (SQLite keeps all four: engine validation)
DATASETS_QUICK = {'sqlite': [1, 2, 3, 4], 'postgres': [1, 2], 'mysql': [1, 2], 'oracle': [2, 4]}

CMP_NODES = {'EQ', 'NE', 'LT', 'LE', 'GT', 'GE', 'IS_NULL', 'IS_NOT_NULL', 'LIKE', 'NOT_LIKE', 'IN', 'NOT_IN', 'AND', 'OR',
             'NOT', 'EXISTS', 'NOT_EXISTS', 'BETWEEN', 'NOT_BETWEEN'}


def slice_queries():
    """Ordered queries cut by a slice (LIMIT / OFFSET and their 'no limit' sentinels); keys are never missing."""
    out = []
    xid = ['attr', 'x', 'id']
    for cond in (['true'], ['attr', 'x', 'flag'], ['cmp', '>', ['attr', 'x', 'b'], ['int', 0]]):
        for d in ('asc', 'desc'):
            for sl in ((1, -1), (0, 2), (1, 2), (2, -1)):
                out.append((dict(loops=[['x', 'T']], res=[['var', 'x']], cond=cond, ord=[[xid, d]], agg='none'), sl))
    return out


def backslash_queries():
    """LIKE patterns with a backslash (the default LIKE escape character of PostgreSQL and MySQL)."""
    xs = ['attr', 'x', 's']
    bs = '\\'
    conds = [['startswith', xs, ['str', ['a', bs]]],
             ['contains', ['str', [bs, 'b']], ['concat', xs, ['str', ['b']]]],
             ['endswith', ['concat', xs, ['str', [bs]]], ['str', ['b', bs]]],
             ['notcontains', ['str', [bs]], ['concat', xs, ['str', [bs, 'a']]]]]
    return [(dict(loops=[['x', 'T']], res=[['var', 'x']], cond=c, ord=[], agg='none'), None) for c in conds]


def query_source(q, sl):
    """(source of an expression giving the pony Query, function applied to it to make Pony build the SQL)."""
    body = qs.body_src(q)
    expr = 'select(%r)' % body
    keys = qs.ord_src(q)
    if keys and q['agg'] == 'none':
        expr += '.order_by(%r)' % ', '.join(keys)
    if q['agg'] != 'none':
        return expr, lambda query: getattr(query, q['agg'])()
    if sl is not None:
        start, stop = sl
        return expr, lambda query: query[start:(None if stop < 0 else stop)]
    return expr, lambda query: query[:]


def nested_comparison(ast):
    """Does the AST contain a comparison one of whose operands is itself a boolean expression?  (For those the
    text Pony renders lacks parentheses - recorded under C01 - so text and AST need not mean the same.)"""
    if not isinstance(ast, (list, tuple)) or not ast or not isinstance(ast[0], str):
        return any(nested_comparison(x) for x in ast) if isinstance(ast, (list, tuple)) else False
    if ast[0] in ('EQ', 'NE', 'LT', 'LE', 'GT', 'GE') and any(isinstance(x, (list, tuple)) and x and x[0] in CMP_NODES for x in ast[1:3]):
        return True
    return any(nested_comparison(x) for x in ast[1:] if isinstance(x, (list, tuple)))


def translate_all(prov, work, stats, dsets=None):
    """work: [(q, slice or None, expected per data set)] -> items for the judge (one per translatable query)."""
    db = mockdb.make(prov, qs.define)
    ns = qs.namespace(db)
    dialect = mockdb.DIALECTS[prov]
    dsets = (dsets or DATASETS)[prov]
    items = []
    for n, (q, sl, out) in enumerate(work):
        expr, post = query_source(q, sl)
        ast = None
        try:
            with db_session:
                db._constructed_sql_cache.clear()
                before = len(db.captured_asts)
                with warnings.catch_warnings():
                    warnings.simplefilter('ignore')
                    query = eval(expr, ns)
                vars_ = query._vars
                try:
                    post(query)
                finally:
                    if len(db.captured_asts) > before:
                        ast = db.captured_asts[before]
        except Exception as e:
            if ast is None:
                stats['untranslatable'][type(e).__name__] += 1       # "raises instead of returning different rows"
                continue
        del db.captured_asts[:]
        if ast is None:
            stats['untranslatable']['no-ast'] += 1
            continue
        try:
            st = sqlast.ser_select(ast, vars_)
        except sqlast.Unsupported as e:
            stats['unsupported'][str(e)] += 1
            continue
        var = q['loops'][0][0]
        r0 = q['res'][0]
        entity = len(q['res']) == 1 and q['agg'] == 'none' and (r0[0] == 'var' or (r0[0] == 'attr' and r0[2] == 'ref'))
        items.append(dict(id=len(items) + 1, d=dialect, q=q, st=st, take=1 if entity else 0,
                          slice=list(sl) if sl else [], ds=dsets, exp=[out[k - 1] for k in dsets], _src=qs.describe(q) + ('[%s:%s]' % sl if sl else ''),
                          _nested=nested_comparison(ast), _n=n))
        if n % 100 == 99:
            c01.clear_pony_caches(db)
    return items


def sqlite_rows(work, datasets):
    """Execute every query of `work` on a real SQLite database populated with each data set and return the raw
    rows the engine gives for the SQL text Pony's real builder rendered: {index in work: [rows per data set]}."""
    db = qs.make_sqlite_db()
    ns = qs.namespace(db)
    rec = []
    orig = db._exec_sql

    def spy(sql, arguments=None, *a, **kw):
        rec.append((sql, arguments))
        return orig(sql, arguments, *a, **kw)
    db._exec_sql = spy
    out = {}
    for n, (q, sl, _) in enumerate(work):
        expr, post = query_source(q, sl)
        del rec[:]
        try:
            with db_session:
                qs.load_dataset(db, datasets[0])
                with warnings.catch_warnings():
                    warnings.simplefilter('ignore')
                    post(eval(expr, ns))
        except Exception:
            continue
        if not rec:
            continue
        sql, args = rec[0]
        rows = []
        try:
            for ds in datasets:
                with db_session:
                    qs.load_dataset(db, ds)
                    con = db.get_connection()
                    rows.append([tuple(r) for r in con.execute(sql, args or ()).fetchall()])
        except Exception:
            continue
        out[n] = (sql, rows)
        if n % 100 == 99:
            c01.clear_pony_caches(db)
    db.disconnect()
    return out


_DT = re.compile(r'^\d{4}-\d\d-\d\d \d\d:\d\d:\d\d(\.\d+)?$')


def engine_value(x):
    """SQLite stores datetimes as text (with or without fraction): compare them as datetimes."""
    if isinstance(x, str) and _DT.match(x):
        return datetime.datetime.strptime(x, '%Y-%m-%d %H:%M:%S.%f' if '.' in x else '%Y-%m-%d %H:%M:%S')
    return x


def plain_rows(rows):
    return [tuple(sqlast.unval(v) for v in r) for r in rows]


def signature(item, verdicts):
    """Normal form of a dialect disagreement: dialect, engine error or not, and the SQL node kinds of the statement
    that are specific to how this dialect's translator wrote it."""
    if item['d'] == 'Oracle' and has_empty_string_literal(item['st']) and query_has_empty_string(item['q']):
        # the '' was written in the query itself (a '' the translator introduces on its own is a different defect)
        return 'C02:Oracle:empty-string-literal'
    kinds = sorted(node_kinds(item['st']) - {'COLUMN', 'VALUE', 'AND', 'NONE', 'LIST'})
    err = any(v['err'] for v in verdicts)
    return 'C02:%s:%s:%s' % (item['d'], 'engine-error' if err else 'rows', '+'.join(kinds))


def query_has_empty_string(q):
    ints, strs = set(), set()
    for part in [q['cond']] + list(q['res']) + [k for k, d in q['ord']]:
        qs._constants(part, ints, strs)
    return '' in strs


def has_empty_string_literal(x):
    if isinstance(x, dict):
        return any(has_empty_string_literal(v) for v in x.values())
    if isinstance(x, list):
        if len(x) == 2 and x[0] == 'VALUE' and isinstance(x[1], dict) and x[1].get('t') == 'str' and x[1].get('v') == []:
            return True
        return any(has_empty_string_literal(y) for y in x)
    return False


def node_kinds(x, acc=None):
    acc = set() if acc is None else acc
    if isinstance(x, dict):
        for k, v in x.items():
            if k in ('cols', 'where', 'group', 'having', 'order', 'from', 'sub', 'on', 'limit'):
                node_kinds(v, acc)
        if x.get('distinct'):
            acc.add('DISTINCT')
        if x.get('limit'):
            acc.add('LIMIT')
    elif isinstance(x, list):
        if x and isinstance(x[0], str) and x[0].isupper():
            acc.add(x[0])
            if x[0] in ('VALUE', 'COLUMN'):
                return acc
        for y in x:
            if isinstance(y, (list, dict)):
                node_kinds(y, acc)
    return acc


def run(ctx):
    quick = ctx.tier == 'quick'
    pool = ThreadPoolExecutor(4)
    extra = slice_queries() + backslash_queries()
    if not quick:
        n = 3000
        smp = qs.Sampler(ctx.seed)
        seen = set()
        while len(seen) < n:
            q = smp.query(3)
            key = json.dumps(q, sort_keys=True)
            if key not in seen:
                seen.add(key)
                extra.append((q, None))
    # expected results: QuerySem.RefEval, exported by TLC (the C01 table, and the same for the extra trees)
    jobs = [pool.submit(c01.export_cases, ctx, {'mode': 'enum', 'depth': 2, 'div': False}, 'tables')]
    jobs += [pool.submit(c01.export_cases, ctx, {'mode': 'given', 'queries': [q for q, sl in extra[i:i + 1000]], 'depth': 0, 'div': False},
                         'extra%d' % i, False) for i in range(0, len(extra), 1000)]
    datasets, nonefree, cases = jobs[0].result()
    work = [(c['q'], None, c['out']) for c in cases]
    k = 0
    for j in jobs[1:]:
        for c in j.result()[2]:
            assert c['q'] == extra[k][0]
            work.append((c['q'], extra[k][1], c['out']))
            k += 1

    stats = {p: {'untranslatable': Counter(), 'unsupported': Counter()} for p in PROVIDERS}
    items, jobs = {}, {}

    def judge(p):
        chunks = [items[p][i:i + 2500] for i in range(0, len(items[p]), 2500)] or [[]]
        out = []
        for k, chunk in enumerate(chunks):
            inp = {'rows': p == 'sqlite', 'devs': c01.DEVIATIONS,
                   'items': [{f: v for f, v in it.items() if not f.startswith('_')} for it in chunk]}
            res, _ = tlc.evaluate('DialectJudge', ctx.scratch, inputs=inp, tag='judge-%s-%d' % (p, k))
            out += res
        return out
    for p in PROVIDERS:          # Pony is used from this thread only; the TLC processes run meanwhile
        items[p] = translate_all(p, work, stats[p], DATASETS_QUICK if quick else DATASETS)
        jobs[p] = pool.submit(judge, p)
    real = sqlite_rows(work, datasets)      # real SQLite engine (model validation), while the TLC processes run
    reports = {p: jobs[p].result() for p in PROVIDERS}
    ctx.timing = getattr(ctx, 'timing', {})

    # -- validation of the SQLite instance of SqlSem against the real engine ------------------------
    validated = skipped_nested = 0
    for it, rep in zip(items['sqlite'], reports['sqlite']):
        if it['_n'] not in real or not rep['res']:
            continue
        if it['_nested']:
            skipped_nested += 1
            continue
        sql, rows = real[it['_n']]
        for v in rep['res']:
            if v['err']:
                continue
            model = plain_rows(v['got'])
            engine = [tuple(engine_value(x) for x in r) for r in rows[v['ds'] - 1]]
            same = model == engine if it['st']['order'] else Counter(model) == Counter(engine)
            if not same and v['ok']:
                # the AST means what the query means (TLC: equals RefEval) but the text rendered from it by the real
                # SQLite builder gives other rows on the real engine: a defect of the builder, not of the model
                ctx.mismatch('C02:SQLite:text-differs-from-ast:' + '+'.join(sorted(node_kinds(it['st']) - {'COLUMN', 'VALUE', 'AND', 'NONE', 'LIST'})),
                             '%s on SQLite, data set %d: the SQL AST evaluates to %r (as expected) but the text %s executed on SQLite gives %r'
                             % (it['_src'], v['ds'], model, ' '.join(sql.split()), engine),
                             {'q': it['q'], 'slice': it['slice'], 'provider': 'sqlite', 'ds': v['ds']})
                continue
            if not same:
                raise MachineryError('SqlSem (SQLite) disagrees with the real SQLite engine on %s, data set %d:\n  %s\n  model %r\n  engine %r'
                                     % (it['_src'], v['ds'], ' '.join(sql.split()), model, engine))
            validated += 1

    # -- verdicts -------------------------------------------------------------------------------------
    programs = points = c01_dev = 0
    c01_devs = Counter()
    for p in PROVIDERS:
        for it, rep in zip(items[p], reports[p]):
            assert it['id'] == rep['id']
            if not rep['res']:
                raise MachineryError('tree not well-typed: %s' % it['_src'])
            programs += 1
            points += len(rep['res'])
            bad = [v for v in rep['res'] if not v['ok'] and not v['c01']]
            for v in rep['res']:
                if v['c01']:
                    c01_dev += 1
                    c01_devs[v['c01'][0]] += 1
            if bad:
                v = bad[0]
                what = '%s translated for %s evaluates on data set %d to %s; expected %r' % (
                    it['_src'], it['d'], v['ds'], 'an engine error' if v['err'] else repr(plain_rows(v['got'])), plain_rows(v['exp']))
                ctx.mismatch(signature(it, bad), what, {'q': it['q'], 'slice': it['slice'], 'provider': p, 'ds': v['ds']})
            elif programs % 997 == 0:
                ctx.sample({'query': it['_src'], 'dialect': it['d'], 'data_sets_judged': len(rep['res'])})
    ctx.coverage.update({
        'programs': programs, 'disagreements_checked': points, 'exhaustive': quick,
        'data_sets_per_dialect': DATASETS_QUICK if quick else DATASETS,
        'queries': len(work), 'dialects': [mockdb.DIALECTS[p] for p in PROVIDERS],
        'untranslatable_accepted': {p: dict(stats[p]['untranslatable']) for p in PROVIDERS},
        'ast_not_modelled_skipped': {p: dict(stats[p]['unsupported']) for p in PROVIDERS},
        'agree_only_as_c01_deviation': dict(c01_devs),
        'sqlite_model_validated_against_engine': validated, 'sqlite_validation_skipped_nested_comparison': skipped_nested,
        'rule': 'program = one (query, dialect) SQL AST produced by the real translator of that dialect; each is evaluated by TLC '
                '(SqlSem.EvalSelect) on the data sets of QuerySem and compared with QuerySem.RefEval',
        'checker_cmd': 'tlc DialectJudge (SqlSem.EvalSelect vs QuerySem.RefEval), tlc QuerySemTables',
    })
    ctx.assumptions += [
        'hand-written model of dialect semantics (SqlSem.tla): PostgreSQL boolean type, 0/1 elsewhere; Oracle empty string is NULL '
        '(judged only on data sets without empty strings); NULL ordering; LIMIT sentinels; LIKE case-sensitive (MySQL: binary collation)',
        'only what is visible in the translator output (SQL AST) is decided; SQL text is executed on SQLite only, where it validates '
        'the SQLite instance of the model in this run',
        'results that equal RefEval under a deviation recorded for C01 (the same on every dialect) are counted, not reported here',
    ]


def replay(ctx, rep):
    q, sl, p = rep['q'], rep['slice'] or None, rep['provider']
    stats = {'untranslatable': Counter(), 'unsupported': Counter()}
    _, _, cs = c01.export_cases(ctx, {'mode': 'given', 'queries': [q], 'depth': 0, 'div': False}, 'replay-exp')
    its = translate_all(p, [(q, tuple(sl) if sl else None, cs[0]['out'])], stats)
    if not its:
        print('not translatable any more: %r' % (stats,))
        return
    it = its[0]
    db = mockdb.make(p, qs.define)
    print('query %s on %s' % (it['_src'], it['d']))
    inp = {'rows': True, 'devs': c01.DEVIATIONS, 'items': [{f: v for f, v in it.items() if not f.startswith('_')}]}
    res, _ = tlc.evaluate('DialectJudge', ctx.scratch, inputs=inp, tag='replay')
    print('statement: %s' % json.dumps(it['st']))
    for v in res[0]['res']:
        print('data set %d: %s rows %r expected %r' % (v['ds'], 'ENGINE ERROR' if v['err'] else ('ok' if v['ok'] else 'DIFFERENT'),
                                                      plain_rows(v['got']), plain_rows(v['exp'])))
        if not v['ok'] and not v['c01']:
            ctx.violations.append('replayed')
