"""C22 - concurrent threads do not interfere through shared process state.

Spec: spec/PonyCache.tla (threads stepping through Query._get_translator / _construct_sql_and_arguments / adapt_sql,
one action per access of a shared dictionary; cross-thread object use).  TLC (i) proves NoSpuriousError,
RightTranslator, Transparent, ForeignUseRaises on the `fixed` configuration (pop-with-default), (ii) refutes
NoSpuriousError on the `asis` configuration (the counterexample is the known double-del), (iii) enumerates every
behaviour of the bounded model (both configurations) - programs, warm-up, interleaving, required outcome per thread.

Binding R: every enumerated interleaving is forced on real threads (harness/sched_cache.py: the shared dictionaries are
replaced by yield-point dictionaries, a controller resumes one thread at a time) on a file-backed SQLite database.
Each thread's result / exception is compared with the answer the spec requires (`req`: the answer of the same
execution alone on cold caches, obtained by a solo run; TransactionError for a cross-thread use).  The accesses the
real threads performed must be a behaviour of the model (asis or fixed); a spurious error is the known finding only
if the as-is model predicts exactly this error for the trace the real threads performed.
"""
from .. import tlc
from ..tlc import MachineryError
from .. import cachemodel_c22 as cm
from ..sched_cache import Scheduler, install, uninstall, clear_process_caches
from pony.orm import core
from pony.orm.core import db_session

LEVEL = 'model_checking'

MEMO = ('ast', 'ext', 's2a')
XUSES = ['assign_ref', 'create_ref', 'load_set', 'iter_set', 'load_attr', 'lazy_attr', 'set_add', 'contains', 'delete',
         'set_attr']
# the same uses made from a db_session that has not touched the database yet (no session cache in local.db2cache)
FRESH = ['load_set_fresh', 'iter_set_fresh', 'load_attr_fresh', 'lazy_attr_fresh', 'delete_fresh']
# uses of a foreign object that only read values that are already in memory (obj.name of a loaded object, the
# primary key of an object passed as a query parameter) touch neither the database nor a session: not required to raise.


# ---- cross-thread uses: `o` is an object loaded by the other thread's session, `seed` an unloaded one, `kid` a K ----
def _use(db, kind, pub):
    T, K = db.T, db.K
    o, seed, kid = pub['obj'], pub['seed'], pub['kid']
    if kind in FRESH:
        kind = kind[:-len('_fresh')]
    if kind == 'assign_ref':
        K[2].t = o                      # Attribute.validate
    elif kind == 'create_ref':
        K(t=o, label='new')             # Attribute.validate
    elif kind == 'load_set':
        len(o.kids)                     # Set.load
    elif kind == 'iter_set':
        list(o.kids)                    # Set.load
    elif kind == 'load_attr':
        seed.name                       # Entity._load_
    elif kind == 'lazy_attr':
        o.big                           # Attribute.load (lazy attribute)
    elif kind == 'set_add':
        T[3].kids.add(kid)              # Set.validate
    elif kind == 'contains':
        kid in T[3].kids                # SetInstance.__contains__
    elif kind == 'delete':
        o.delete()
    elif kind == 'set_attr':
        o.tag = 'changed-by-other-thread'
    else:
        raise MachineryError('unknown cross-thread use %r' % kind)


class Env(object):
    def __init__(self, ctx):
        self.ctx = ctx
        self.real = cm.RealDb(ctx.scratch, 'c22')
        self.db = self.real.db
        self.sched = None
        self.y, self.saved = install(self.db, None)
        self.solo = {}

    def close(self):
        uninstall(self.db, self.saved)
        self.real.close()

    def set_sched(self, sched):
        for c in self.y.values():
            c._sched = sched

    def solo_answer(self, q, p):
        """The execution alone, on cold caches, in the controller thread."""
        k = cm.term_key([q, p])
        if k not in self.solo:
            self.set_sched(None)
            clear_process_caches(self.db)
            with db_session:
                out = cm.outcome(lambda: cm.execute(self.db, q, p))
            self.solo[k] = out
        return self.solo[k]

    def run(self, beh, memo_steps):
        """Force the interleaving beh['sched'] on real threads. Returns (outcomes per thread, performed trace, extra)."""
        db = self.db
        self.set_sched(None)
        clear_process_caches(db)
        w = beh['warm']
        if w['q'] != 'none':
            with db_session:
                cm.execute(db, w['q'], w['p'])
        sched = Scheduler()
        sched.quiet = set() if memo_steps else set(MEMO)
        self.set_sched(sched)
        open_sessions = set()
        pub = {}
        outs = {}
        dirty = [False]

        def body(tid, prog):
            def run():
                out = outs[tid] = []
                try:
                    with db_session:
                        if not (prog[0]['op'] == 'xuse' and prog[0]['q'] in FRESH):
                            pub[tid] = {'obj': db.T[1], 'seed': db.K[1].t, 'kid': db.K[2]}
                            open_sessions.add(tid)
                        try:
                            for op in prog:
                                if op['op'] == 'exec':
                                    out.append(['ok', cm.execute(db, op['q'], op['p'])])
                                else:
                                    sched.yield_point(('xuse', op['q']))
                                    others = sorted(open_sessions - {tid})
                                    if not others:
                                        out.append(['skipped'])
                                        continue
                                    _use(db, op['q'], pub[others[0]])
                                    dirty[0] = True     # no error: the other session may now write; restore afterwards
                                    out.append(['ok', ['val', 'None']])
                                    core.rollback()
                        finally:
                            open_sessions.discard(tid)
                except Exception as e:      # the outcome of the real thread; compared with the requirement
                    out.append(['err', cm.family(e)])
            return run

        n = len(beh['prog'])
        for tid in range(1, n + 1):
            sched.spawn(tid, body(tid, beh['prog'][tid - 1]))
        sched.start()
        for s in beh['sched']:
            sched.step(s['t'])
        extra = sched.finish()
        self.set_sched(None)
        if dirty[0]:
            self.real.restore()
        return outs, list(sched.trace), extra


def required(env, ob):
    """What the spec requires for one observed operation, as a real outcome."""
    req = ob['req']
    if ob['op']['op'] == 'xuse':
        return ['skipped'] if req['err'] == 'skipped' else ['err', req['err']]
    # req is the cold answer term of the thread's own execution: its real value is the solo run
    return env.solo_answer(req['tr']['q'], req['arg'])


def judge(ctx, env, beh, outs, trace, asis_index, memo_steps):
    """Compare every thread's outcomes with the requirement; classify spurious errors through the as-is model."""
    nviol = 0
    tkey = cm.trace_key(beh['prog'], beh['warm'], trace)
    predicted = asis_index.get(tkey) if asis_index is not None else \
        (beh if tkey == cm.beh_key(beh) else None)      # simulation: the exported behaviour itself, when followed exactly
    for tid, prog in enumerate(beh['prog'], 1):
        got = outs.get(tid, [])
        for i, op in enumerate(prog):
            ob = {'op': op, 'req': _req_of(op)}
            want = required(env, ob)
            have = got[i] if i < len(got) else ['missing']
            if have == want or have == ['skipped']:
                continue                # (a use attempted when no other session is open any more requires nothing)
            if i > 0 and got[i - 1][0] == 'err':
                break                   # the program ended with the earlier (already judged) exception
            what = 'thread %d of %s (warm-up %s) under interleaving %s: %s gives %r, alone it gives %r' % (
                tid, _show_progs(beh['prog']), _show_exec(beh['warm']), ' '.join('W%d.%s.%s' % (t, c, o) for t, (c, o) in trace),
                _show_op(op), have, want)
            sig = 'C22:%s:%s:%s' % (op['op'], op['q'], have[1] if have[0] == 'err' else 'wrong-result')
            if op['op'] == 'xuse' and have[0] == 'ok':
                sig = 'C22:xuse:%s:no-TransactionError' % op['q']
            elif have == ['err', 'KeyError'] and predicted is not None:
                pobs = predicted['obs'][tid - 1]
                if i < len(pobs) and pobs[i]['got']['err'] == 'KeyError':
                    sig = 'C22:_get_translator:double-del'
            if ctx.mismatch(sig, what, {'beh': _slim(beh), 'memo_steps': memo_steps, 'thread': tid}):
                nviol += 1
            break
    return nviol


def _req_of(op):
    if op['op'] == 'xuse':
        return {'err': 'TransactionError'}
    return {'tr': {'q': op['q']}, 'arg': op['p']}


def _slim(beh):
    return {'prog': beh['prog'], 'warm': beh['warm'], 'sched': beh['sched']}


def _show_exec(e):
    return 'none' if e['q'] == 'none' else '%s(%s)' % (e['q'], e['p']['v'])


def _show_op(op):
    return ('use:' + op['q']) if op['op'] == 'xuse' else _show_exec(op)


def _show_progs(progs):
    return ' || '.join(';'.join(_show_op(o) for o in p) for p in progs)


def replay_all(ctx, env, behs, asis_index, fixed_index, memo_steps, stats):
    for beh in behs:
        outs, trace, extra = env.run(beh, memo_steps)
        stats['replayed'] += 1
        tkey = cm.trace_key(beh['prog'], beh['warm'], trace)
        model = None
        if asis_index is not None:
            model = asis_index.get(tkey) or fixed_index.get(tkey)
        elif tkey == cm.beh_key(beh):
            model = beh
        if model is not None:
            stats['conforming'] += 1
        else:
            predicted_err = any(o['got']['k'] == 'err' and o['got']['err'] == 'KeyError' for obs in beh['obs'] for o in obs)
            if asis_index is None and predicted_err:
                stats['diverged_where_asis_model_predicts_keyerror'] += 1
            else:
                stats['nonconforming'].append({'beh': _slim(beh), 'performed': trace})
        nv = judge(ctx, env, beh, outs, trace, asis_index, memo_steps)
        if not nv and len(ctx.samples) < 4 and len(trace) > 4 and stats['replayed'] % 97 == 0:
            ctx.sample({'programs': _show_progs(beh['prog']), 'warm': _show_exec(beh['warm']),
                        'interleaving': ' '.join('W%d.%s.%s' % (t, c, o) for t, (c, o) in trace), 'results': outs})
        for t, (c, o) in trace:
            stats['accesses'][c + '.' + o] = stats['accesses'].get(c + '.' + o, 0) + 1


def index(behs):
    return {cm.beh_key(b): b for b in behs}


def run(ctx):
    quick = ctx.tier == 'quick'
    sc = ctx.scratch
    xuses = cm.strset(XUSES + FRESH)
    base = dict(NThreads=2, Fams='{"Slice2"}' if quick else '{"Slice3"}', XUses=xuses, WarmSet='<-WarmSlice9', MinLen=1, MaxLen=1)

    # (i) the required behaviour holds on the repaired design; the same run enumerates all its behaviours
    fixed_behs, res_fixed = cm.export(sc, tag='c22-fixed', inv=cm.INVARIANTS, **dict(base, **cm.FIXED))
    states, transitions = res_fixed.distinct, res_fixed.generated
    # (ii) all behaviours of the design as it is: TLC itself exhibits the interleaving that raises KeyError
    asis_behs, res_asis = cm.export(sc, tag='c22-asis', **base)
    bad = [b for b in asis_behs if any(o['got']['err'] == 'KeyError' for obs in b['obs'] for o in obs)]
    if not bad:
        raise MachineryError('the as-is model of Query._get_translator exhibits no KeyError')
    shortest = min(bad, key=lambda b: (len(b['sched']), cm.beh_key(b)))
    cex = ['W%d.%s.%s' % (s['t'], s['c'], s['o']) for s in shortest['sched']]
    seeded = {}
    if not quick:
        _, steps = cm.refute(sc, 'NoSpuriousError', tag='c22-asis-inv', **dict(base, XUses='{}'))
        seeded['asis: NoSpuriousError refuted'] = steps
        cm.refute(sc, 'RightTranslator', tag='c22-seed1', **dict(base, XUses='{}', CompareFixed='FALSE', **cm.FIXED))
        seeded['CompareFixed=FALSE'] = 'RightTranslator refuted'
        cm.refute(sc, 'Transparent', tag='c22-seed2', **dict(base, XUses='{}', Fams='{"Baked"}', WarmSet='<-WarmCold',
                                                              SqlKeyHasFixed='FALSE', **cm.FIXED))
        seeded['SqlKeyHasFixed=FALSE'] = 'Transparent refuted'
        res3 = cm.check(sc, tag='c22-fixed3', **dict(base, NThreads=3, Fams='{"Slice2"}', XUses='{"load_set"}', **cm.FIXED))
        res_memo = cm.check(sc, tag='c22-fixedm', **dict(base, MemoSteps='TRUE', Fams='{"MixT"}', XUses='{}', WarmSet='<-WarmCold',
                                                         **cm.FIXED))
        states += res3.distinct + res_memo.distinct
        transitions += res3.generated + res_memo.generated
    r1, r2 = res_asis, res_fixed
    asis_index, fixed_index = index(asis_behs), index(fixed_behs)
    todo = dict(asis_index)
    for k, b in fixed_index.items():
        todo.setdefault(k, b)
    behs = [todo[k] for k in sorted(todo)]

    env = Env(ctx)
    stats = {'replayed': 0, 'conforming': 0, 'nonconforming': [], 'accesses': {}, 'diverged_where_asis_model_predicts_keyerror': 0}
    try:
        replay_all(ctx, env, behs, asis_index, fixed_index, False, stats)
        exhaustive_n = stats['replayed']

        # larger models: seeded random behaviours (TLC -simulate) of the as-is design
        sims = []
        if quick:
            sims.append(('3thr-memo', dict(base, NThreads=3, MemoSteps='TRUE', Fams='{"Slice2"}', XUses='{"load_set", "set_add", "load_set_fresh"}'),
                         (300, 60)))
        else:
            sims.append(('memo-2thr', dict(base, MemoSteps='TRUE', Fams='{"MixT"}', XUses='{}', WarmSet='<-WarmAny'), (3000, 60)))
            sims.append(('3thr', dict(base, NThreads=3, Fams='{"Slice3"}'), (4000, 60)))
            sims.append(('2thr-2exec', dict(base, MaxLen=2, MinLen=2, Fams='{"Slice3"}', XUses='{"load_set"}'), (3000, 60)))
            sims.append(('3thr-memo', dict(base, NThreads=3, MemoSteps='TRUE', Fams='{"MixT"}', XUses='{}', WarmSet='<-WarmAny'),
                         (2000, 90)))
        sim_counts = {}
        for name, kw, (num, depth) in sims:
            sb, _ = cm.export(sc, tag='c22-sim-' + name, simulate=(num, depth), seed=ctx.seed + 1, **kw)
            sim_counts[name] = len(sb)
            replay_all(ctx, env, sb, None, None, kw.get('MemoSteps') == 'TRUE', stats)
    finally:
        env.close()

    ctx.coverage.update({
        'states': states, 'transitions': transitions,
        'traces_validated_against_impl': stats['replayed'],
        'exhaustive': True,
        'interleavings_all_behaviours_2_threads': exhaustive_n,
        'interleavings_simulated': sim_counts,
        'real_traces_that_are_model_behaviours': stats['conforming'],
        'export_states_asis': r1.distinct, 'export_states_fixed': r2.distinct,
        'asis_counterexample_shortest': cex,
        'seeded_design_errors_refuted': seeded,
        'shared_accesses_forced': stats['accesses'],
        'diverged_where_asis_model_predicts_keyerror': stats['diverged_where_asis_model_predicts_keyerror'],
        'checker_cmd': 'tlc PonyCache (fixed: invariants hold; asis: NoSpuriousError refuted; export of all behaviours; -simulate)',
    })
    ctx.assumptions += [
        'thread switches happen only at the accesses of the six shared dictionaries (the yield points); computation between '
        'two accesses is thread-local or on the thread\'s own SQLite connection',
        'threads only read the database; cross-thread uses that merely read values already in memory (a loaded attribute, the '
        'primary key of a foreign object used as a query parameter) are not required to raise',
        'answers are compared as bags; errors by family',
    ]
    if stats['nonconforming'] and not ctx.violations:
        raise MachineryError('PonyCache no longer describes the cache accesses of the code: %d of %d forced interleavings made '
                             'the real threads perform a sequence of accesses that is not a behaviour of the model, e.g. %r' % (
                                 len(stats['nonconforming']), stats['replayed'], stats['nonconforming'][0]))


def replay(ctx, rep):
    env = Env(ctx)
    try:
        beh = rep['beh']
        outs, trace, extra = env.run(beh, rep.get('memo_steps', False))
        print('programs: %s   warm-up: %s' % (_show_progs(beh['prog']), _show_exec(beh['warm'])))
        print('interleaving performed: %s' % ' '.join('W%d.%s.%s' % (t, c, o) for t, (c, o) in trace))
        for tid, prog in enumerate(beh['prog'], 1):
            for i, op in enumerate(prog):
                want = required(env, {'op': op, 'req': _req_of(op)})
                have = outs.get(tid, [])[i] if i < len(outs.get(tid, [])) else ['missing']
                ok = have == want or have == ['skipped']
                print('thread %d %s -> %r   required: %r%s' % (tid, _show_op(op), have, want, '' if ok else '   <-- differs'))
                if not ok:
                    ctx.violations.append('replayed')
    finally:
        env.close()
