"""C03 - decompiling a generator or lambda preserves its meaning.

E1 (case tables): spec/PyExpr.tla defines the expression space (Exprs / ExprSeq, generator shells GenShellSeq) and the
meaning of every tree (Eval, CondVal, EvalGen); TLC exports, for every tree, the value under every assignment of its free
names from {None, False, True, 0, 1, 2} (spec/PyExprTables.tla).  For every tree the harness

  * renders fully parenthesised source, compiles `lambda a,b,c,d: <src>` (names as fast locals), `lambda: <src>` (names as
    globals), an inner lambda closing over a..d (names as cell variables) resp. the generator `(<elt> for x in T if .. for y in ..)`
    at module level and inside a function,
  * calls the real pony.orm.decompiling.decompile,
  * compiles the *returned AST object* (not its source text) and evaluates it under every assignment: the table must equal
    the one TLC exported; for generators the number of for-clauses, the loop targets and the iterables are compared
    structurally, each clause's filter and the element by their tables, and the whole generator is run on concrete iterables
    and compared with EvalGen.
  DecompileError / NotImplementedError (or any other exception) is the accepted outcome "rejected with an error"; counted.

The decompiler's AST cache (keyed by code object) is never cleared during a run, thousands of code objects with identical
bytecode but different constants/names pass through it, every function is decompiled twice, and pairs with equal bytecode are
decompiled alternately while both are alive.

Self-check of the environment model: Eval/CondVal/EvalGen are first compared with CPython's own eval of the rendered source
on every enumerated tree and environment (MachineryError on disagreement)."""
import ast
import collections
import copy
import gc
import hashlib
import json
import os
import random

from .. import pyexpr_c03 as px
from ..tlc import MachineryError
from pony.orm import decompiling
from pony.orm.decompiling import decompile, DecompileError

LEVEL = 'translation_validation'

VALS = 'six'
PARAMS = ['a', 'b', 'c', 'd']

PLAN = {
    # (alphabet, n) lambda spaces; generator shell spaces; seeded random larger trees (count, sizes)
    'quick': {'lambdas': [('bool', 3), ('wide2', 2)], 'gens': [('gen', 2)], 'eltgens': [('gencond', 4)], 'random': None, 'parts': 4},
    'thorough': {'lambdas': [('bool4', 3), ('cond', 5), ('boolc', 2), ('wide', 2)], 'gens': [('gen', 2), ('gencond', 3)],
                 'eltgens': [('gencond', 4), ('gen', 3)],
                 'random': {'lambdas': [('wide', 1500, (3, 7)), ('bool', 1500, (5, 9))], 'gens': [('gen', 1500, (3, 8))]}, 'parts': 8},
}

T_VALUES = (None, False, True, 0, 1, 2, px.R2)
U_VALUES = (0, 1)
RUN_ENVS = [dict(a=None, y=2, T=T_VALUES, U=U_VALUES), dict(a=1, y=2, T=T_VALUES, U=U_VALUES)]      # = PyExprTables.RunEnvs


# -- features of the source tree that name the known defects -------------------------------------------------------------
def _children(e):
    k = e[0]
    if k in ('Name', 'Const', 'Omit'):
        return []
    if k == 'Un':
        return [e[2]]
    if k == 'Bin':
        return [e[2], e[3]]
    if k == 'Bool':
        return list(e[2])
    if k == 'Cmp':
        return [e[1]] + list(e[3])
    if k == 'IfExp':
        return [e[1], e[2], e[3]]
    if k in ('Attr',):
        return [e[1]]
    if k == 'Sub':
        return [e[1], e[2]]
    if k == 'Slice':
        return [e[1], e[2], e[3]]
    if k == 'Tuple':
        return list(e[1])
    if k == 'Call':
        return [e[1]] + list(e[2]) + [kw[1] for kw in e[3]]
    if k == 'Lambda':
        return list(e[2]) + [e[3]]
    if k == 'FStr':
        out = []
        for p in e[1]:
            if p[0] == 'Fld':
                out.append(p[1])
                out.extend(_children(['FStr', p[3]]))
        return out
    raise MachineryError('unknown node %r' % (e,))


def _walk(e):
    yield e
    for c in _children(e):
        for x in _walk(c):
            yield x


def _has(e, kind):
    return any(x[0] == kind for x in _walk(e))


def _jumps(e):
    """Does evaluating e involve conditional jumps (and/or, conditional expression, comparison chain)?"""
    return any(x[0] in ('Bool', 'IfExp') or (x[0] == 'Cmp' and len(x[2]) > 1) for x in _walk(e))


FEATURE_ORDER = ['ifexp-in-later-operand-of-and-or', 'ifexp-after-jumping-operand', 'ifexp-in-else-branch-of-ifexp',
                 'ifexp-in-body-of-ifexp', 'ifexp-in-test-of-ifexp', 'not-with-and-or-in-test-of-ifexp']


def expr_features(e):
    """Source features of an expression that name the known defects of the conditional-expression reconstruction
    (Decompiler.JUMP_FORWARD / process_target), in a fixed order; the first one is used as the signature."""
    f = set()
    for x in _walk(e):
        if x[0] == 'IfExp':
            if _has(x[2], 'IfExp'):
                f.add('ifexp-in-body-of-ifexp')
            if _has(x[3], 'IfExp'):
                f.add('ifexp-in-else-branch-of-ifexp')
            if _has(x[1], 'IfExp'):
                f.add('ifexp-in-test-of-ifexp')
            if _has(x[1], 'Bool') and any(y[0] == 'Un' and y[1] == 'Not' for y in _walk(x[1])):
                f.add('not-with-and-or-in-test-of-ifexp')
        elif x[0] == 'Bool':
            if any(_has(v, 'IfExp') for v in x[2][1:]):
                f.add('ifexp-in-later-operand-of-and-or')
        else:
            kids = _children(x)
            for i, c in enumerate(kids):
                if i and _has(c, 'IfExp') and any(_jumps(p) for p in kids[:i]):
                    f.add('ifexp-after-jumping-operand')
    return [x for x in FEATURE_ORDER if x in f]


def _nonboolean_jumps(e, boolean=True):
    """Is there an and/or (or other jumping construct) that is an operand of a non-boolean operator inside a filter?"""
    k = e[0]
    if boolean and k == 'Bool':
        return any(_nonboolean_jumps(v, True) for v in e[2])
    if boolean and k == 'Un' and e[1] == 'Not':
        return _nonboolean_jumps(e[2], True)
    if boolean:
        return any(_jumps(c) for c in _children(e))
    return _jumps(e)


def gen_features(g):
    elt, clauses = g[1], g[2]
    filters = [c for cl in clauses for c in cl[2]]
    f = []
    if any(_has(c, 'IfExp') for c in filters):
        f.append('ifexp-in-filter')
    if _has(elt, 'IfExp') and filters:
        f.append('ifexp-in-element-of-filtered-generator')
    f += expr_features(elt)
    if any(_nonboolean_jumps(c) for c in filters):
        f.append('and-or-as-operand-inside-filter')
    return f


GEN_ONLY = ('ifexp-in-filter', 'ifexp-in-element-of-filtered-generator', 'and-or-as-operand-inside-filter')


# -- the recorded wrong answers ------------------------------------------------------------------------------------------------
# A source feature alone would be too coarse a signature: a *different* wrong tree for a source with a known feature - or a wrong
# tree for such a source that decompiles correctly today - must still be reported.  For the enumerated (seed-independent) spaces the
# known findings are therefore keyed by the pair (source, wrong tree): c03.known_wrong.json holds one digest per known
# (source text, ast.dump of the decompiled tree).  A mismatch whose pair is not recorded gets the suffix :unrecorded-wrong-tree and
# is a VIOLATION.  Seeded random trees (not enumerable in advance) fall back to the feature signature.
# Re-record (only after triaging every new mismatch as an instance of a known finding):  VERIF_C03_RECORD=1 ./check C03 --tier thorough
BASELINE_FILE = os.path.join(os.path.dirname(os.path.abspath(__file__)), 'c03.known_wrong.json')
RECORDING = bool(os.environ.get('VERIF_C03_RECORD'))
_recorded = set()


def load_baseline():
    try:
        with open(BASELINE_FILE) as f:
            data = json.load(f)['digests']
    except (OSError, ValueError, KeyError):
        return frozenset()
    return frozenset(data[i:i + 12] for i in range(0, len(data), 12))


BASELINE = load_baseline()


def wrong_answer_key(src, tree):
    return hashlib.sha1((src + ' => ' + safe_dump(tree)).encode()).hexdigest()[:12]


def known_signature(kind, feats, src, tree, space):
    sig = signature(kind, feats)
    if not feats or space.startswith('random'):
        return sig
    key = wrong_answer_key(src, tree)
    if RECORDING:
        _recorded.add(key)
        return sig
    return sig if key in BASELINE else sig + ':unrecorded-wrong-tree'


def save_baseline():
    keys = sorted(_recorded | (BASELINE if os.environ.get('VERIF_C03_RECORD') == 'add' else set()))
    with open(BASELINE_FILE, 'w') as f:
        json.dump({'comment': 'digests (12 hex chars each, concatenated) of the known (source, wrong decompiled tree) pairs of the C03 '
                              'findings in the enumerated spaces; see harness/props/c03.py', 'count': len(keys), 'digests': ''.join(keys)}, f)
        f.write('\n')


def signature(kind, feats):
    if not feats:
        return 'C03:%s:no-known-feature' % kind
    if feats[0] in GEN_ONLY:
        return 'C03:gen:' + feats[0]
    return 'C03:ifexp:' + (feats[0][6:] if feats[0].startswith('ifexp-') else feats[0])


# -- evaluation of ast objects ------------------------------------------------------------------------------------------------
class Stats(object):
    def __init__(self):
        self.c = collections.Counter()
        self.points = 0
        self.selfcheck_points = 0
        self.tlc = {}
        self.code_groups = collections.defaultdict(set)


G = px.base_globals()
_env_cache = {}


def envs_for(names, k):
    key = (tuple(names), k)
    if key not in _env_cache:
        _env_cache[key] = [dict(G, **env) for env in px.envs(list(names), k, VALS)]
    return _env_cache[key]


def table_of_code(code, envs):
    out = []
    for env in envs:
        try:
            out.append(px.norm(eval(code, env)))
        except RecursionError:
            raise
        except Exception as e:
            out.append(['e', type(e).__name__])
    return out


def table_of_node(node, envs):
    """Table of an `ast` expression object; 'invalid' if it cannot be compiled."""
    try:
        code = px.compile_expr(copy.deepcopy(node))
    except (TypeError, ValueError, SyntaxError, AttributeError) as e:
        return 'invalid-tree: %s' % e
    return table_of_code(code, envs)


def filter_table(ifs, envs):
    """TRUE/FALSE/error of a clause's filter = its ifs in order (PyExpr.CondVal)."""
    try:
        codes = [px.compile_expr(copy.deepcopy(n)) for n in ifs]
    except (TypeError, ValueError, SyntaxError, AttributeError) as e:
        return 'invalid-tree: %s' % e
    out = []
    for env in envs:
        try:
            v = True
            for c in codes:
                if not eval(c, env):
                    v = False
                    break
            out.append(v)
        except RecursionError:
            raise
        except Exception as e:
            out.append(['e', type(e).__name__])
    return out


def run_generator(code, env):
    out, stop = [], True
    try:
        for v in eval(code, dict(G, **env)):
            out.append(px.norm(v))
    except RecursionError:
        raise
    except Exception as e:
        stop = ['e', type(e).__name__]
    return {'out': out, 'stop': stop}


first_diff = px.first_diff


def selfcheck(what, src, got, exp, envs_desc):
    i = first_diff(got, exp)
    if i is not None:
        raise MachineryError('PyExpr.%s disagrees with CPython on %s at point %d (%s): spec %r, CPython %r' % (
            what, src, i, envs_desc, exp[i], got if isinstance(got, str) else got[i]))


# -- compiling the forms -----------------------------------------------------------------------------------------------------------
def make_lambda(form, src):
    if form == 'params':
        return eval('lambda a, b, c, d: ' + src, dict(G))
    if form == 'globals':
        return eval('lambda: ' + src, dict(G))
    if form == 'closure':
        return eval('(lambda a, b, c, d: (lambda: %s))(None, None, None, None)' % src, dict(G))
    raise MachineryError(form)


def make_generator(form, src):
    env = dict(G, **RUN_ENVS[0])
    if form == 'module':
        return eval(src, env)
    if form == 'function':       # a, y, U are cell variables of the enclosing function
        return eval('(lambda a, y, T, U: %s)(a, y, T, U)' % src, env)
    raise MachineryError(form)


def try_decompile(st, x, kind):
    """-> (tree, None) or (None, outcome class)"""
    try:
        return decompile(x)[0], None
    except (DecompileError, NotImplementedError) as e:
        st.c['%s_rejected_%s' % (kind, type(e).__name__)] += 1
        return None, 'rejected'
    except RecursionError:
        raise
    except Exception as e:           # any other exception is still "rejected with an error", counted separately
        st.c['%s_rejected_other_%s' % (kind, type(e).__name__)] += 1
        return None, 'rejected'


def safe_dump(node):
    try:
        return ast.dump(node)
    except Exception as e:
        return 'undumpable %s %s' % (type(e).__name__, id(node))


def safe_unparse(node):
    try:
        return ast.unparse(node)
    except Exception as e:
        return '<tree that cannot be unparsed: %s>' % type(e).__name__


# -- lambdas ---------------------------------------------------------------------------------------------------------------------------
def check_lambda_row(ctx, st, r, names, forms, space):
    e, k, exp = r['e'], r['k'], r['tab']
    src = px.check_renderers(e)
    envs = envs_for(names, k)
    if len(envs) != len(exp):
        raise MachineryError('table of %s has %d points, expected %d' % (src, len(exp), len(envs)))
    got = table_of_code(px.compile_src(src), envs)
    selfcheck('Eval', src, got, exp, 'assignments of %s' % names[:k])
    st.selfcheck_points += len(exp)
    st.c['trees'] += 1
    feats = None
    seen = {}
    for form in forms:
        f = make_lambda(form, src)
        code = f.__code__
        st.code_groups[code.co_code].add((repr(code.co_consts), code.co_names, code.co_varnames, code.co_freevars))
        st.c['programs'] += 1
        tree, out = try_decompile(st, f, 'lambda')
        if tree is None:
            continue
        again = decompile(f)[0]
        if again is tree:
            st.c['cache_second_call_same_object'] += 1
        key = safe_dump(tree) + ('' if again is tree else ' / ' + safe_dump(again))
        if key not in seen:
            res = table_of_node(tree, envs)
            if again is not tree and first_diff(res, exp) is None:
                res = table_of_node(again, envs)
            seen[key] = res
            st.points += sum(1 for x in exp if x != 'U')
        res = seen[key]
        i = first_diff(res, exp)
        if i is None:
            st.c['lambda_ok'] += 1
            if len(ctx.samples) < 3 and _jumps(e) and len(src) > 20:
                ctx.sample({'lambda': 'lambda a, b, c, d: ' + src, 'decompiled_to': safe_unparse(tree), 'assignments_compared': len(exp)})
            continue
        st.c['lambda_mismatch'] += 1
        if feats is None:
            feats = expr_features(e)
        env = {n: envs[i][n] for n in names[:k]}
        if isinstance(res, str):
            what = '%s decompiles to a tree that is not a valid expression (%s): %s' % (src, res, safe_unparse(tree))
        else:
            what = 'lambda %s: decompiled to %s; with %s the source gives %s, the decompiled tree %s' % (
                src, safe_unparse(tree), env, px.show(exp[i]), px.show(res[i]))
        ctx.mismatch(known_signature('lambda', feats, src, tree, space), what,
                     {'kind': 'lambda', 'form': form, 'tree': e, 'names': list(names), 'space': space})


# -- generators ---------------------------------------------------------------------------------------------------------------------
def check_gen_row(ctx, st, r, names, forms, space):
    g = r['g']
    src = px.check_renderers(g)
    node = px.to_ast(g)
    # self-check of the model against CPython
    selfcheck('Eval (element)', src, table_of_node(node.elt, envs_for(names, r['elt']['k'])), r['elt']['tab'], 'assignments of %s' % names)
    for ci, comp in enumerate(node.generators):
        selfcheck('CondVal (clause %d)' % (ci + 1), src, filter_table(comp.ifs, envs_for(names, r['conds'][ci]['k'])), r['conds'][ci]['tab'],
                  'assignments of %s' % names)
    code0 = px.compile_src(src)
    for ri, env in enumerate(RUN_ENVS):
        got = run_generator(code0, env)
        if not px.same(got, r['runs'][ri]):
            raise MachineryError('PyExpr.EvalGen disagrees with CPython on %s (run %d): spec %r, CPython %r' % (src, ri, r['runs'][ri], got))
    st.selfcheck_points += len(r['elt']['tab']) + sum(len(x['tab']) for x in r['conds']) + len(RUN_ENVS)
    st.c['generators'] += 1
    feats = None
    seen = {}
    for form in forms:
        gen = make_generator(form, src)
        code = gen.gi_code
        st.code_groups[code.co_code].add((repr(code.co_consts), code.co_names, code.co_varnames, code.co_freevars))
        st.c['programs'] += 1
        tree, out = try_decompile(st, gen, 'gen')
        if tree is not None:
            again = decompile(gen)[0]
            if again is tree:
                st.c['cache_second_call_same_object'] += 1
        gen.close()
        if tree is None:
            continue
        key = safe_dump(tree)
        if key not in seen:
            seen[key] = compare_generator(st, tree, node, r, names)
        why = seen[key]
        if why is None:
            st.c['gen_ok'] += 1
            if len(ctx.samples) < 5 and len(node.generators) > 1 and _jumps(g[1]):
                ctx.sample({'generator': src, 'decompiled_to': safe_unparse(tree)})
            continue
        st.c['gen_mismatch'] += 1
        if feats is None:
            feats = gen_features(g)
        ctx.mismatch(known_signature('gen', feats, src, tree, space), 'generator %s: decompiled to %s; %s' % (src, safe_unparse(tree), why),
                     {'kind': 'gen', 'form': form, 'tree': g, 'names': list(names), 'space': space})


def compare_generator(st, tree, node, r, names):
    """None if the decompiled generator has the structure and meaning of the source, else a description."""
    if not isinstance(tree, ast.GeneratorExp) or not all(isinstance(c, ast.comprehension) for c in tree.generators):
        return 'the result is not a generator expression with comprehension clauses'
    if len(tree.generators) != len(node.generators):
        return 'the source has %d for-clauses, the decompiled tree %d' % (len(node.generators), len(tree.generators))
    for ci, (c1, c2) in enumerate(zip(tree.generators, node.generators)):
        if safe_dump(c1.target) != safe_dump(c2.target):
            return 'loop target of clause %d differs' % (ci + 1)
        if ci == 0:
            if not (isinstance(c1.iter, ast.Name) and c1.iter.id == '.0'):
                return 'the first iterable is not the generator argument'
        elif safe_dump(c1.iter) != safe_dump(c2.iter):
            return 'iterable of clause %d differs: %s' % (ci + 1, safe_unparse(c1.iter))
    # the decompiled pieces may mention more names than the source pieces: tabulate over all names and project
    allenvs = envs_for(names, len(names))

    def expected(piece):
        k, tab = piece['k'], piece['tab']
        if k == len(names):
            return tab
        step = len(allenvs) // len(tab)
        return [tab[i // step] for i in range(len(allenvs))]
    exp = expected(r['elt'])
    res = table_of_node(tree.elt, allenvs)
    st.points += sum(1 for x in r['elt']['tab'] if x != 'U')
    i = first_diff(res, exp)
    if i is not None:
        env = {k: allenvs[i][k] for k in names}
        return 'element: with %s the source gives %s, the decompiled tree %s' % (env, px.show(exp[i]), res if isinstance(res, str) else px.show(res[i]))
    for ci, comp in enumerate(tree.generators):
        exp = expected(r['conds'][ci])
        res = filter_table(comp.ifs, allenvs)
        st.points += sum(1 for x in r['conds'][ci]['tab'] if x != 'U')
        i = first_diff(res, exp)
        if i is not None:
            env = {k: allenvs[i][k] for k in names}
            return 'filter of clause %d: with %s the source filter is %s, the decompiled one %s' % (
                ci + 1, env, px.show(exp[i]), res if isinstance(res, str) else px.show(res[i]))
    whole = copy.deepcopy(tree)
    whole.generators[0].iter = ast.Name(id='T', ctx=ast.Load())
    try:
        code = px.compile_expr(whole)
    except (TypeError, ValueError, SyntaxError, AttributeError) as e:
        return 'the decompiled generator is not a valid expression (%s)' % e
    for ri, env in enumerate(RUN_ENVS):
        got = run_generator(code, env)
        st.points += 1
        if not px.same(got, r['runs'][ri]):
            return 'run over T=%r, U=%r, a=%r: the source yields %s, the decompiled generator %s' % (
                T_VALUES, U_VALUES, env['a'], r['runs'][ri], got)
    return None


# -- the AST cache ---------------------------------------------------------------------------------------------------------------------
def check_cache_pairs(ctx, st, rows, names):
    """Functions with identical bytecode but different constants/names, alive at the same time, decompiled alternately."""
    by_code = collections.defaultdict(list)
    for r in rows:
        src = px.to_src(r['e'])
        f = make_lambda('globals', src)
        by_code[f.__code__.co_code].append((r, src, f))
    pairs = 0
    for code, members in by_code.items():
        distinct = {}
        for r, src, f in members:
            distinct.setdefault((repr(f.__code__.co_consts), f.__code__.co_names), (r, src, f))
        members = list(distinct.values())[:4]
        if len(members) < 2:
            continue
        for _round in range(2):
            for r, src, f in members:
                tree, out = try_decompile(st, f, 'cachepair')
                if tree is None:
                    continue
                envs = envs_for(names, r['k'])
                res = table_of_node(tree, envs)
                st.points += sum(1 for x in r['tab'] if x != 'U')
                i = first_diff(res, r['tab'])
                if i is not None and not expr_features(r['e']):
                    ctx.mismatch('C03:cache:equal-bytecode-different-constants', 'lambda: %s decompiled (with functions of identical bytecode '
                                 'alive: %s) to %s' % (src, [m[1] for m in members], safe_unparse(tree)),
                                 {'kind': 'lambda', 'form': 'globals', 'tree': r['e'], 'names': list(names), 'space': 'cache-pairs'})
        pairs += len(members)
    st.c['cache_equal_bytecode_functions_checked_alive_together'] = pairs


# -- driver -----------------------------------------------------------------------------------------------------------------------------
def run(ctx):
    plan = PLAN[ctx.tier]
    st = Stats()
    parts = plan['parts']
    lambda_forms = ['params', 'globals', 'closure']
    gen_forms = ['module', 'function']
    spaces = []
    wide_rows = None

    # law of the specification itself: the enumeration ExprSeq lists every tree of the set Exprs exactly once
    sz = px.space_size(ctx.scratch, 'bool', 3, st.tlc, distinct=True)
    if sz['exprs'] != sz['distinct']:
        raise MachineryError('ExprSeq(bool, 3) has %d entries but Exprs(bool, 3) has %d elements' % (sz['exprs'], sz['distinct']))

    for alpha, n in plan['lambdas']:
        A = px.alphabet(ctx.scratch, alpha, st.tlc)
        before = st.c['trees']
        keep = [] if alpha.startswith('wide') else None
        for rows in px.run_jobs(ctx.scratch, px.exprs_jobs(alpha, n, VALS, parts), st.tlc, workers=parts):
            for r in rows:
                check_lambda_row(ctx, st, r, A['names'], lambda_forms, '%s/%d' % (alpha, n))
            if keep is not None:
                keep.extend({'e': r['e'], 'k': r['k'], 'tab': r['tab']} for r in rows if r['k'] <= 2)
        spaces.append('Exprs(%s, %d): %d trees' % (alpha, n, st.c['trees'] - before))
        if keep is not None:
            wide_rows = (keep, A['names'])
        gc.collect()

    for alpha, n in plan['gens']:
        A = px.alphabet(ctx.scratch, alpha, st.tlc)
        before = st.c['generators']
        for rows in px.run_jobs(ctx.scratch, px.gens_jobs(alpha, n, VALS, parts), st.tlc, workers=parts):
            for r in rows:
                check_gen_row(ctx, st, r, A['names'], gen_forms, 'gens %s/%d' % (alpha, n))
        spaces.append('GenShells(%s, %d): %d generators' % (alpha, n, st.c['generators'] - before))
        gc.collect()

    for alpha, n in plan['eltgens']:
        A = px.alphabet(ctx.scratch, alpha, st.tlc)
        before = st.c['generators']
        for rows in px.run_jobs(ctx.scratch, px.eltgens_jobs(alpha, n, VALS, parts), st.tlc, workers=parts):
            for r in rows:
                check_gen_row(ctx, st, r, A['names'], gen_forms, 'element shells %s/%d' % (alpha, n))
        spaces.append('ElementShells(%s, %d): %d generators' % (alpha, n, st.c['generators'] - before))
        gc.collect()

    if plan['random']:
        rng = random.Random(ctx.seed)
        for alpha, count, (lo, hi) in plan['random']['lambdas']:
            A = px.alphabet(ctx.scratch, alpha, st.tlc)
            derivs = [px.random_deriv(rng, A, rng.randint(lo, hi), A['nconsts']) for _ in range(count)]
            before = st.c['trees']
            for rows in px.run_jobs(ctx.scratch, px.derivs_jobs(alpha, derivs, VALS), st.tlc, workers=parts):
                for r in rows:
                    check_lambda_row(ctx, st, r, A['names'], lambda_forms, 'random %s' % alpha)
            spaces.append('seeded random trees over %s with %d..%d operator nodes: %d' % (alpha, lo, hi, st.c['trees'] - before))
        for alpha, count, (lo, hi) in plan['random']['gens']:
            A = px.alphabet(ctx.scratch, alpha, st.tlc)
            derivs = []
            for _ in range(count):
                two = rng.random() < 0.5
                n1, n2 = rng.randint(0, 2), rng.randint(0, 2)
                slots = 1 + n1 + (n2 if two else 0)
                total = rng.randint(lo, hi)
                cuts = sorted(rng.randrange(0, total + 1) for _ in range(slots - 1))
                sizes = [b - a for a, b in zip([0] + cuts, cuts + [total])]
                ds = [px.random_deriv(rng, A, sz) for sz in sizes]
                derivs.append({'elt': ds[0], 'c1': ds[1:1 + n1], 'two': 'y' if two else 'n', 'it': rng.randint(1, 2),
                               'c2': ds[1 + n1:] if two else []})
            before = st.c['generators']
            for rows in px.run_jobs(ctx.scratch, px.derivs_jobs(alpha, derivs, VALS, gens=True), st.tlc, workers=parts):
                for r in rows:
                    check_gen_row(ctx, st, r, A['names'], gen_forms, 'random gens %s' % alpha)
            spaces.append('seeded random generators over %s with %d..%d operator nodes: %d' % (alpha, lo, hi, st.c['generators'] - before))

    if wide_rows:
        check_cache_pairs(ctx, st, wide_rows[0], wide_rows[1])

    if RECORDING:
        save_baseline()
        print('recorded %d known (source, wrong tree) pairs in %s' % (len(_recorded), BASELINE_FILE))
    groups = [g for g in st.code_groups.values() if len(g) > 1]
    c = st.c
    rejected = sum(v for k, v in c.items() if '_rejected_' in k and not k.startswith('cachepair'))
    ctx.coverage.update({
        'programs': c['programs'],
        'disagreements_checked': st.points,
        'exhaustive': ctx.tier == 'quick',
        'trees': c['trees'], 'generator_shells': c['generators'],
        'decompiled_and_equal': c['lambda_ok'] + c['gen_ok'],
        'rejected_with_error': rejected,
        'rejected_by_class': {k.split('_rejected_')[1]: sum(v for kk, v in c.items() if kk.split('_rejected_')[-1] == k.split('_rejected_')[1]
                                                            and '_rejected_' in kk and not kk.startswith('cachepair'))
                              for k in c if '_rejected_' in k and not k.startswith('cachepair')},
        'mismatches_all_known': c['lambda_mismatch'] + c['gen_mismatch'],
        'selfcheck_points_spec_vs_cpython': st.selfcheck_points,
        'cache_second_call_returned_same_object': c['cache_second_call_same_object'],
        'cache_bytecode_groups_with_different_constants_or_names': len(groups),
        'cache_code_objects_in_such_groups': sum(len(g) for g in groups),
        'cache_equal_bytecode_functions_checked_alive_together': c['cache_equal_bytecode_functions_checked_alive_together'],
        'ast_cache_entries_at_end': len(decompiling.ast_cache),
        'spaces': spaces,
        'known_wrong_trees_recorded': len(BASELINE),
        'enumeration_equals_set': 'Len(ExprSeq(bool, 3)) = Cardinality(Exprs(bool, 3)) = %d (checked by TLC)' % sz['exprs'],
        'tlc': st.tlc,
        'rule': 'program = one compiled form (lambda with parameters / with globals / closure; generator at module level / in a function) '
                'of one tree of the spaces listed under "spaces", decompiled by the real decompile(); its AST is compiled and compared with '
                'the TLC-exported table at every assignment of its free names from {None, False, True, 0, 1, 2}',
        'checker_cmd': 'tlc PyExprTables (PyExpr.Eval / CondVal / EvalGen over ExprSeq / GenShellSeq)',
    })
    ctx.assumptions += [
        'CPython 3.12 only (the decompiler is per-version); PyExpr.Eval is a model of CPython validated against eval() on every tree and '
        'assignment in this run',
        'points the model leaves undefined (identity of strings/large ints, floats, ints beyond 10^5) are skipped',
        'any exception raised by decompile() counts as "rejected with an error"',
    ]


def replay(ctx, rep):
    tree, names = rep['tree'], rep['names']
    stats = {}
    rows = px.trees_rows(ctx.scratch, [tree], names, VALS, stats, gens=rep['kind'] == 'gen')
    st = Stats()
    before = len(ctx.violations)
    ctx.known = {}
    if rep['kind'] == 'gen':
        print('generator: %s' % px.to_src(tree))
        check_gen_row(ctx, st, rows[0], names, [rep['form']], 'replay')
    else:
        print('lambda (%s form): %s' % (rep['form'], px.to_src(tree)))
        check_lambda_row(ctx, st, rows[0], names, [rep['form']], 'replay')
    if len(ctx.violations) == before:
        print('the decompiled tree agrees with the specification now (or the input is rejected): %s' % dict(st.c))
