"""C06 - values reach the database unchanged: parameters, literals and identifiers.

Oracle: spec/Literal.tla (driver stage of format-style drivers, per-dialect lexers of string literals and quoted
identifiers, placeholder binding of the five DB-API paramstyles, LikeMatch, Python's startswith/endswith/in).

E2 (real Pony output judged by TLC, spec/LiteralJudge.tla):
  * str(Value/SQLiteValue/PGValue/MySQLValue(style, s)) for every string s over the adversarial alphabet and each of
    the five paramstyles, and the same through SQLBuilder.VALUE of each provider -> must lex to exactly one string
    token with value s under the dialect's rules;
  * provider.quote_name(s) of each provider -> exactly one identifier token with value s;
  * SELECT statements (shapes enumerated by TLC: repeated parameters, tuple-indexed parameters, composite
    parameters, adversarial inline text, MOD, raw_sql fragments with $$ and %) rendered by the real SQLBuilder
    subclasses under all five paramstyles, arguments produced by the real adapter closures -> the value-carrying
    tokens the database reads are exactly the expected ones and the skeleton equals that of the harmless statement;
  * the LIKE nodes the real translator builds for startswith/endswith/in (constants and parameters) on all four
    dialects -> LikeMatch agrees with Python for every stored string.
E1 (TLC-exported expectations executed on the real SQLite):
  * echo: select(<literal> for x in One) returns the literal; LIKE: startswith/endswith/in with adversarial constants
    and parameters return exactly the strings TLC lists; identifiers: tables/columns with adversarial names are created
    and found under exactly that name; plain shapes executed under qmark and named return the expected row.
Self-checks (MachineryError on disagreement): the standard SQL lexer and LikeMatch against the real SQLite, the
driver stage against CPython's % operator, Prefixes/Suffixes/Infixes against CPython.
"""
import datetime
import decimal
import sqlite3

from .. import mockdb, tlc
from ..tlc import MachineryError
from pony.orm import core
from pony.orm.core import db_session, select, Optional, Required
from pony.orm import sqlbuilding
from pony.orm.ormtypes import RawSQL

LEVEL = 'translation_validation'

PROVIDERS = ['sqlite', 'postgres', 'mysql', 'oracle']
STYLES = ['qmark', 'format', 'numeric', 'named', 'pyformat']
EAC = 'é'
TRANSLATION_ERRORS = (core.TranslationError, TypeError, NotImplementedError, IndexError, ValueError)


def enc(s):
    """text -> sequence of one-character atoms of Literal.tla"""
    return ['E9' if c == EAC else c for c in s]


def dec(chars):
    return ''.join(EAC if c == 'E9' else c for c in chars)


def define(db):
    class T(db.Entity):
        s = Optional(str)

    class One(db.Entity):
        n = Required(int)


# ------------------------------------------------------------------------------------------------------------
# self-checks of the environment models
# ------------------------------------------------------------------------------------------------------------

class Marker(object):
    def __init__(self, name):
        self.name = name

    def __str__(self):
        return '<%s>' % self.name


def selfcheck(ctx, tables):
    con = sqlite3.connect(':memory:')
    n = 0
    # string-literal and identifier lexer (standard rules) against SQLite's tokenizer
    for key, fmt in (('lex', 'select (%s)'), ('idlex', 'select 1 as %s')):
        for r in tables[key]:
            text = dec(r['text'])
            if not text or not (r['single'] or r['err']):
                continue
            try:
                cur = con.execute(fmt % text)
                got = cur.fetchone()[0] if key == 'lex' else cur.description[0][0]
                raised = False
            except sqlite3.Error:
                raised = True
            n += 1
            if r['err'] and not raised:
                raise MachineryError('Literal.Lex says %r is unterminated, SQLite accepts it' % text)
            if r['single'] and (raised or got != dec(r['v'])):
                raise MachineryError('Literal.Lex reads %r as %r, SQLite %s' % (text, dec(r['v']), 'raises' if raised else repr(got)))
    # LikeMatch against SQLite's LIKE
    ss = [dec(s) for s in tables['likeS']]
    for r in tables['like']:
        p, esc = dec(r['p']), r['esc']
        want = set(dec(s) for s in r['m'])
        for s in ss:
            if esc:
                got = con.execute('select ? like ? escape ?', (s, p, esc)).fetchone()[0]
            else:
                got = con.execute('select ? like ?', (s, p)).fetchone()[0]
            n += 1
            if bool(got) != (s in want):
                raise MachineryError('Literal.LikeMatch(%r, %r, %r) = %r but SQLite says %r' % (p, esc, s, s in want, got))
    con.close()
    # driver stage against CPython's % operator
    for r in tables['fmt']:
        text = ''.join(r['text'])
        if r['style'] == 'format':
            args = tuple(Marker('m%d' % (k + 1)) for k in range(r['nargs']))
        else:
            args = {'p': Marker('m1')}
        try:
            got = text % args
            raised = False
        except (TypeError, ValueError, KeyError, IndexError):
            raised = True
        n += 1
        if not r['err']:
            if raised or got != ''.join(r['out']):
                raise MachineryError('Literal.Fmt(%s, %r, %d args) = %r but CPython %s' % (
                    r['style'], text, r['nargs'], ''.join(r['out']), 'raises' if raised else repr(got)))
        elif not raised:
            # CPython's % is more liberal than a statement formatter in two ways Pony never relies on: with a mapping
            # it lets %s print the whole mapping and accepts %(key)%.  The model (and psycopg2) reject both.
            liberal = r['style'] == 'pyformat' and ('%s' in text.replace('%%', '') or ')%' in text)
            if not liberal:
                raise MachineryError('Literal.Fmt(%s, %r, %d args) is an error but CPython gives %r' % (r['style'], text, r['nargs'], got))
    # Python's startswith / endswith / in
    rows = [(dec(r['s']), set(map(dec, r['pre'])), set(map(dec, r['suf'])), set(map(dec, r['inf']))) for r in tables['pyops']]
    strs = [r[0] for r in rows]
    small = [s for s in strs if len(s) <= 3]
    for s, pre, suf, inf in rows:
        for p in (small if len(s) > 3 else strs):
            n += 3
            if (p in pre) != s.startswith(p) or (p in suf) != s.endswith(p) or (p in inf) != (p in s):
                raise MachineryError('Literal.PyPrefixes/PySuffixes/PyInfixes disagree with CPython on p=%r s=%r' % (p, s))
    return n


# ------------------------------------------------------------------------------------------------------------
# E2: literals and identifiers
# ------------------------------------------------------------------------------------------------------------

def value_classes():
    from pony.orm.dbproviders.sqlite import SQLiteValue
    from pony.orm.dbproviders.postgres import PGValue
    from pony.orm.dbproviders.mysql import MySQLValue
    return [('Oracle', sqlbuilding.Value), ('SQLite', SQLiteValue), ('PostgreSQL', PGValue), ('MySQL', MySQLValue)]


class StyleProvider(object):
    """The real provider with another paramstyle (SQLBuilder reads provider.paramstyle and provider.quote_name)."""

    def __init__(self, provider, style):
        self._provider = provider
        self.paramstyle = style

    def __getattr__(self, name):
        return getattr(self._provider, name)


def literal_cases(dbs, strs, idstrs):
    cases, meta = [], []
    for d, cls in value_classes():
        for style in STYLES:
            for s in strs:
                text = str(cls(style, s))
                cases.append([d, style, 'str', enc(text), enc(s)])
                meta.append(('value', cls.__name__, d, style, s, text))
    for prov in PROVIDERS:
        provider = dbs[prov].provider
        d = mockdb.DIALECTS[prov]
        builder_cls = provider.sqlbuilder_cls
        style = provider.paramstyle
        for s in strs:
            text = builder_cls(provider, ['VALUE', s]).sql
            cases.append([d, style, 'str', enc(text), enc(s)])
            meta.append(('builder', builder_cls.__name__, d, style, s, text))
        for s in idstrs:
            text = provider.quote_name(s)
            cases.append([d, style, 'id', enc(text), enc(s)])
            meta.append(('ident', type(provider).__mro__[2].__name__, d, style, s, text))
    return cases, meta


def literal_signature(m):
    kind, cls, d, style, s, text = m
    if kind in ('value', 'builder') and d == 'MySQL' and '\\' in s:
        return 'C06:MySQL:literal:backslash-unescaped'
    if kind == 'ident' and '%' in s and style in ('format', 'pyformat'):
        return 'C06:%s:ident:percent-undoubled' % d
    return 'C06:%s:%s:%s:%s' % (d, style, kind, cls)


# ------------------------------------------------------------------------------------------------------------
# E2: parameter placement (shapes)
# ------------------------------------------------------------------------------------------------------------

def comp_func(args):
    return 'comp(%s)' % ','.join(args)


_builder_cache = {}


def with_composite(builder_cls):
    """The provider's real builder plus one AST node that reaches the real make_composite_param (which Pony itself
    only reaches through JSON paths)."""
    b = _builder_cache.get(builder_cls)
    if b is None:
        class B(builder_cls):
            def COMPOSITE(builder, paramkey, *items):
                return builder.make_composite_param(paramkey, [builder(i) for i in items], comp_func)
        b = _builder_cache[builder_cls] = B
    return b


def shape_ast(shape, keys, table):
    """Pony SQL AST and values dict for one TLC-enumerated shape."""
    values = {}
    for k in keys.values():
        if k['idx'] < 0:
            values[k['var']] = k['val']
        else:
            t = list(values.get(k['var'], (None, None)))
            t[k['idx']] = k['val']
            values[k['var']] = tuple(t)

    def pkey(name):
        k = keys[name]
        return (k['var'], k['idx'] if k['idx'] >= 0 else None, None)
    items = []
    for pos, it in enumerate(shape):
        kind = it['k']
        if kind == 'param':
            items.append(['PARAM', pkey(it['key'])])
        elif kind == 'val':
            items.append(['VALUE', dec(it['s'])])
        elif kind == 'comp':
            items.append(['COMPOSITE', ('c', pkey(it['key'])), ['VALUE', 'c'], ['PARAM', pkey(it['key'])]])
        elif kind == 'mod':
            items.append(['MOD', ['PARAM', pkey(it['key'])], ['VALUE', 7]])
        elif kind == 'raw':
            var = 'raw%d' % pos
            raw = RawSQL(dec(it['s']), {}, {k['var']: k['val'] for k in keys.values() if k['idx'] < 0})
            values[var] = raw
            n = 0
            parts = []
            for x in raw.items:        # as RawSQLMonad.getsql does
                if isinstance(x, str):
                    parts.append(x)
                else:
                    parts.append(['PARAM', (var, n, None), None])
                    n += 1
            items.append(['RAWSQL', parts])
        else:
            raise MachineryError('unknown shape item %r' % (it,))
    ast = ['SELECT', ['ALL'] + items, ['FROM', ['t', 'TABLE', table]]]
    return ast, values


def ser_bound(v):
    if not isinstance(v, str):
        raise MachineryError('unexpected bound value %r' % (v,))
    return {'t': 'atom', 'v': v}


def ser_args(args):
    if isinstance(args, dict):
        return [{'name': list(k), 'v': ser_bound(v)} for k, v in sorted(args.items())]
    return [ser_bound(v) for v in args]


def render_shape(provider, style, shape, keys, table):
    builder_cls = with_composite(provider.sqlbuilder_cls)
    ast, values = shape_ast(shape, keys, table)
    b = builder_cls(StyleProvider(provider, style), ast)
    return b.sql, b.adapter(values)


def shape_signature(d, style, shape):
    if d == 'MySQL' and any(it['k'] == 'val' and '\\' in it['s'] for it in shape):
        return 'C06:MySQL:literal:backslash-unescaped'
    if style in ('format', 'pyformat') and any(it['k'] == 'raw' and '%' in it['s'] for it in shape):
        return 'C06:rawsql:percent-undoubled:%s' % style
    return 'C06:%s:%s:params:%s' % (d, style, '+'.join(it['k'] for it in shape))


def shape_str(shape):
    out = []
    for it in shape:
        if it['k'] == 'val':
            out.append('VALUE(%r)' % dec(it['s']))
        elif it['k'] == 'raw':
            out.append('raw_sql(%r)' % dec(it['s']))
        else:
            out.append('%s(%s)' % (it['k'].upper(), it['key']))
    return ', '.join(out)


# ------------------------------------------------------------------------------------------------------------
# E2: LIKE
# ------------------------------------------------------------------------------------------------------------

OPS = {'startswith': 'x.s.startswith(%s)', 'endswith': 'x.s.endswith(%s)', 'in': '%s in x.s'}


def like_query(db, op, p, const):
    if const:
        return select('x.s for x in T if ' + OPS[op] % repr(p), {'T': db.T}, {})
    return select('x.s for x in T if ' + OPS[op] % 'p', {'T': db.T}, {'p': p})


def like_node(ast):
    where = [s for s in ast if isinstance(s, list) and s and s[0] == 'WHERE']
    if len(where) != 1 or len(where[0]) != 2 or where[0][1][0] != 'LIKE':
        raise MachineryError('the translator no longer renders startswith/endswith/in as a single LIKE: %r' % (where,))
    return where[0][1]


def ser_like(provider, node):
    """The LIKE node for Literal.LikePrep; VALUE leaves become the text the provider's real builder renders."""
    style = provider.paramstyle
    builder_cls = provider.sqlbuilder_cls

    def conv(e):
        op = e[0]
        if op == 'VALUE' and isinstance(e[1], str):
            return ['LIT', style, enc(builder_cls(provider, ['VALUE', e[1]]).sql)]
        if op == 'PARAM':
            return ['PARAM']
        if op == 'COLUMN':
            return ['COLUMN']
        if op in ('REPLACE', 'CONCAT'):
            return [op] + [conv(x) for x in e[1:]]
        raise MachineryError('unexpected node in a LIKE pattern: %r' % (e,))
    return ['LIKE', conv(node[1]), conv(node[2]), conv(node[3]) if len(node) > 3 else ['NONE']]


def like_signature(d, op, const, p, has_escape):
    if const and '\\' in p:
        if d == 'MySQL':
            return 'C06:MySQL:literal:backslash-unescaped'
        if d == 'PostgreSQL' and not has_escape:
            return 'C06:PostgreSQL:like:const-backslash-default-escape'
    return 'C06:%s:like:%s:%s' % (d, op, 'const' if const else 'param')


# ------------------------------------------------------------------------------------------------------------
# typed literals
# ------------------------------------------------------------------------------------------------------------

def typed_value(r):
    kind, v = r['kind'], r['v']
    if kind == 'int':
        return v, repr(v)
    if kind == 'date':
        return datetime.date(*v), 'date(%d, %d, %d)' % tuple(v)
    if kind == 'datetime':
        return datetime.datetime(*v), 'datetime(%d, %d, %d, %d, %d, %d, %d)' % tuple(v)
    if kind == 'timedelta':
        return datetime.timedelta(*v), 'timedelta(%d, %d, %d)' % tuple(v)
    if kind == 'bytes':
        return bytes(v), repr(bytes(v))
    raise MachineryError('unknown typed literal kind %r' % kind)


def typed_cases(tables):
    judged = set(tuple(x) for x in tables['typed_judged'])
    cases, meta = [], []
    rows = [{'kind': kind, 'v': v} for kind in sorted(tables['typed']) for v in sorted(tables['typed'][kind], key=repr)]
    for d, cls in value_classes():
        for style in STYLES:
            for r in rows:
                if (d, r['kind']) not in judged:
                    continue
                value, src = typed_value(r)
                if r['kind'] == 'timedelta':
                    assert (value.days, value.seconds, value.microseconds) == tuple(r['v'])   # Python's normal form
                text = str(cls(style, value))
                cases.append({'d': d, 'style': style, 'kind': r['kind'], 'text': enc(text), 'v': r['v']})
                meta.append((cls.__name__, d, style, r['kind'], value, text))
    return cases, meta, rows


# ------------------------------------------------------------------------------------------------------------
def run(ctx):
    quick = ctx.tier == 'quick'
    _scratch_dir[0] = ctx.scratch.dir
    n = 3 if quick else 4              # strings over the 7-letter alphabet up to this length
    idn = 3 if quick else 4            # identifiers over the 9-letter alphabet
    like_p = 2 if quick else 3         # E2 LIKE: constants/parameters up to this length ...
    like_s = 3                         # ... against stored strings up to this length
    tables, _ = tlc.evaluate('LiteralTables', ctx.scratch, inputs={
        'lexlen': 5 if quick else 6, 'likep': 3, 'likes': 2, 'fmtlen': 4 if quick else 5, 'n': n, 'idn': idn,
        'n3': 'params' if quick else 'small'})
    env_checks = selfcheck(ctx, tables)

    strs = sorted((dec(r['s']) for r in tables['pyops']), key=lambda s: (len(s), s))
    idstrs = sorted((dec(s) for s in tables['idstrs']), key=lambda s: (len(s), s))
    keys = {k['key']: k for k in tables['keys']}
    table = dec(tables['table'])
    shapes = sorted(tables['shapes'], key=lambda r: repr(r['shape']))
    dbs = {prov: mockdb.make(prov, define) for prov in PROVIDERS}

    # -- literals and identifiers --------------------------------------------------------------------------
    lits, lit_meta = literal_cases(dbs, strs, idstrs)

    # -- shapes ---------------------------------------------------------------------------------------------
    flats, flat_meta, refs = [], [], []
    for prov in PROVIDERS:
        provider = dbs[prov].provider
        d = mockdb.DIALECTS[prov]
        ref_index = {}
        for r in shapes:
            key = repr(r['benign'])
            if key not in ref_index:
                sql, args = render_shape(provider, 'qmark', r['benign'], keys, table)
                refs.append({'text': enc(sql), 'args': ser_args(args)})
                ref_index[key] = len(refs)
            for style in STYLES:
                sql, args = render_shape(provider, style, r['shape'], keys, table)
                flats.append({'d': d, 'style': style, 'shape': r['shape'], 'text': enc(sql), 'args': ser_args(args),
                              'ref': ref_index[key]})
                flat_meta.append((prov, d, style, r['shape'], sql, args))

    # -- LIKE -------------------------------------------------------------------------------------------------
    likes, like_meta = [], []
    untranslatable = 0
    ps = [s for s in strs if len(s) <= like_p]
    probe = "a'\\%_!" + EAC
    for prov in PROVIDERS:
        db = dbs[prov]
        d = mockdb.DIALECTS[prov]
        for op in OPS:
            for const in (True, False):
                for p in (ps if const else [probe]):
                    if d == 'Oracle' and p == '':
                        continue
                    try:
                        ast, sql, args = mockdb.translate(db, lambda: like_query(db, op, p, const))
                    except TRANSLATION_ERRORS:
                        untranslatable += 1
                        continue
                    node = like_node(ast)
                    if isinstance(args, dict):
                        sargs = [{'name': list(k), 'v': {'t': 'str', 'v': enc(v)}} for k, v in args.items()]
                    else:
                        sargs = [{'t': 'str', 'v': enc(v)} for v in args]
                    likes.append({'d': d, 'op': op, 'kind': 'const' if const else 'param', 'ast': ser_like(db.provider, node),
                                  'p': enc(p), 'full': enc(sql), 'style': db.provider.paramstyle, 'args': sargs})
                    like_meta.append((prov, d, op, const, p, sql, len(node) > 3))

    typed, typed_meta, typed_rows = typed_cases(tables)

    # -- one TLC run judges everything ------------------------------------------------------------------------
    verdict, res = tlc.evaluate('LiteralJudge', ctx.scratch, inputs={
        'lits': lits, 'flats': flats, 'refs': refs, 'likes': likes, 'likep': like_p, 'likes_len': like_s,
        'typed': typed})
    disagreements = 0
    for k in (len(lits) // 3, len(lits) - 1):
        ctx.sample({'rendered_by': lit_meta[k][1], 'dialect': lit_meta[k][2], 'paramstyle': lit_meta[k][3], 'value': lit_meta[k][4], 'text': lit_meta[k][5]})
    k = len(flats) // 2
    ctx.sample({'select': shape_str(flat_meta[k][3]), 'dialect': flat_meta[k][1], 'paramstyle': flat_meta[k][2], 'sql': flat_meta[k][4],
                'arguments': repr(flat_meta[k][5])})
    for b in verdict['lits']['bad']:
        m = lit_meta[b['id'] - 1]
        kind, cls, d, style, s, text = m
        disagreements += 1
        reads = ' '.join('%s:%r' % (t['t'], dec(t['v'])) for t in b['reads'])
        ctx.mismatch(literal_signature(m), '%s renders %r as %s under paramstyle %s; %s reads: %s' % (
            cls, s, text, style, d, reads or '(nothing)'), {'mode': 'literal', 'kind': kind, 'd': d, 'style': style, 's': s})
    for b in verdict['flats']['bad']:
        prov, d, style, shape, sql, args = flat_meta[b['id'] - 1]
        disagreements += 1
        ctx.mismatch(shape_signature(d, style, shape), 'SELECT %s built by %s under paramstyle %s gives %r with arguments %r; %s reads %s, '
                     'expected %s (skeleton %s)' % (shape_str(shape), dbs[prov].provider.sqlbuilder_cls.__name__, style, sql, args, d,
                                                   show_tokens(b['reads']), show_tokens(b['expected']),
                                                   'unchanged' if b['skeleton_same'] else 'CHANGED'),
                     {'mode': 'shape', 'prov': prov, 'style': style, 'shape': shape})
    for k in verdict['typed']['bad']:
        cls, d, style, kind, value, text = typed_meta[k - 1]
        disagreements += 1
        ctx.mismatch('C06:%s:%s:typed:%s' % (d, style, kind), '%s renders %r as %s under paramstyle %s, which does not denote that value on %s' % (
            cls, value, text, style, d), {'mode': 'typed', 'd': d, 'style': style, 'kind': kind, 'v': repr(value)})
    like_pairs = 0
    for r in verdict['likes']:
        prov, d, op, const, p, sql, has_escape = like_meta[r['id'] - 1]
        like_pairs += r['pairs']
        if r['nbad'] or not r['full_ok']:
            disagreements += 1
            if r['nbad']:
                f = r['first'][0]
                what = '%s on %s (%s %r): SQL %r; with p=%r and stored string %r the database answers %s, Python %s (%d of %d pairs differ)' % (
                    OPS[op] % 'p', d, 'constant' if const else 'parameter', p, sql, dec(f['p']), dec(f['s']), f['sql'], f['python'],
                    r['nbad'], r['pairs'])
            else:
                what = '%s on %s: the statement %r does not lex cleanly or the parameter is not bound unchanged' % (OPS[op] % 'p', d, sql)
            ctx.mismatch(like_signature(d, op, const, p, has_escape), what, {'mode': 'like', 'prov': prov, 'op': op, 'const': const, 'p': p})
        elif const and len(p) == 2:
            ctx.sample({'query': OPS[op] % repr(p), 'dialect': d, 'sql': sql, 'pairs_evaluated': r['pairs']})

    # -- E1 on the real SQLite ----------------------------------------------------------------------------------
    e1 = run_sqlite(ctx, tables, strs, idstrs, shapes, keys, table, quick, typed_rows)

    programs = len(lits) + len(flats) + len(likes) + len(typed)
    ctx.coverage.update({
        'programs': programs, 'disagreements_checked': len(lits) + len(flats) + like_pairs + len(typed), 'typed_literals_judged': len(typed), 'exhaustive': True,
        'literals_judged': len(lits), 'statements_judged': len(flats), 'like_asts_judged': len(likes), 'like_pairs_evaluated': like_pairs,
        'cases_with_disagreement': disagreements, 'untranslatable_accepted': untranslatable,
        'environment_model_checks': env_checks,
        'rule': 'program = one text produced by the real Pony code (a literal of one Value class under one paramstyle, a quoted '
                'identifier, a SELECT of one TLC-enumerated shape built by one SQLBuilder subclass under one paramstyle with the '
                'arguments of its adapter closure, or a LIKE node of the real translator); strings: all of length <= %d over '
                "{' \\ %% _ ! a e-acute}, identifiers: length 1..%d over that alphabet plus \" and `" % (n, idn),
        'checker_cmd': 'tlc LiteralJudge (Literal.Statement / LikeEval), tlc LiteralTables',
    })
    ctx.coverage.update(e1)
    ctx.assumptions += [
        'format/pyformat drivers (pymysql, MySQLdb, psycopg2) apply %-formatting to every statement Pony sends with an arguments '
        'object (Pony always passes one for generated SQL); the model of that stage is checked against CPython\'s % operator',
        'MySQL lexical rules: default sql_mode (backslash escapes on, ANSI_QUOTES off), escape table of the Reference Manual; '
        'PostgreSQL: standard_conforming_strings=on; LIKE without ESCAPE uses backslash on PostgreSQL and MySQL (documented defaults); '
        'no PostgreSQL/MySQL/Oracle server in the sandbox - findings on these dialects are judged under the documented rules',
        'standard string/identifier lexer, LikeMatch and qmark/named binding validated against the real SQLite in this run; '
        'numeric (:N) binding as defined by PEP 249',
        'Oracle: the empty string is NULL - empty constants/parameters/stored strings are outside the LIKE comparison on Oracle',
    ]


def show_tokens(toks):
    return '[' + ' '.join('%s:%s' % (t['t'], dec(t['v'])) for t in toks) + ']'


# ------------------------------------------------------------------------------------------------------------
# E1: real SQLite
# ------------------------------------------------------------------------------------------------------------

def sqlite_db(strs):
    db = core.Database()
    define(db)
    db.bind('sqlite', ':memory:')
    db.generate_mapping(create_tables=True)
    with db_session:
        db.One(n=1)
        for s in strs:
            db.T(s=s)
    return db


def run_sqlite(ctx, tables, strs, idstrs, shapes, keys, table, quick, typed_rows):
    out = {}
    db = sqlite_db(strs)
    # echo: the literal comes back
    echoed = 0
    for s in strs:
        try:
            with db_session:
                got = select('%r for x in One' % s, {'One': db.One})[:]
        except TRANSLATION_ERRORS:
            continue
        except core.DBException as e:
            got = ['database error: %s' % type(e).__name__]
        echoed += 1
        if list(got) != [s]:
            ctx.mismatch('C06:SQLite-exec:echo', 'select(%r for x in One) returns %r on SQLite' % (s, list(got)), {'mode': 'echo', 's': s})
    for r in typed_rows:
        value, src = typed_value(r)
        try:
            with db_session:
                got = select('%s for x in One' % src, {'One': db.One, 'date': datetime.date, 'datetime': datetime.datetime,
                                                       'timedelta': datetime.timedelta})[:]
        except TRANSLATION_ERRORS:
            continue
        except core.DBException as e:
            got = ['database error: %s' % type(e).__name__]
        echoed += 1
        if list(got) != [value] or type(got[0]) is not type(value):
            ctx.mismatch('C06:SQLite-exec:echo:%s' % r['kind'], 'select(%s for x in One) returns %r on SQLite' % (src, list(got)),
                         {'mode': 'echo', 's': src})
    out['sqlite_echo_queries'] = echoed
    # LIKE: constants and parameters
    expected = {op: {} for op in OPS}
    for r in tables['pyops']:
        s = dec(r['s'])
        for op, col in (('startswith', 'pre'), ('endswith', 'suf'), ('in', 'inf')):
            for p in r[col]:
                expected[op].setdefault(dec(p), set()).add(s)
    like_queries = rows = 0
    for op in OPS:
        for const in (True, False):
            for p in strs:
                try:
                    with db_session:
                        got = like_query(db, op, p, const)[:]
                except TRANSLATION_ERRORS:
                    continue
                except core.DBException as e:
                    got = ['database error: %s' % type(e).__name__]
                like_queries += 1
                rows += len(got)
                want = expected[op].get(p, set())
                if set(got) != want or len(got) != len(want):
                    diff = sorted(set(got) ^ want)[:3]
                    ctx.mismatch('C06:SQLite-exec:like:%s:%s' % (op, 'const' if const else 'param'),
                                 '%s with %s %r on SQLite: %d rows, expected %d; e.g. %r' % (OPS[op] % 'p', 'constant' if const else 'parameter', p,
                                                                                             len(got), len(want), diff),
                                 {'mode': 'like-exec', 'op': op, 'const': const, 'p': p})
    out['sqlite_like_queries'] = like_queries
    out['sqlite_like_rows'] = rows
    # raw_sql with $$ executed
    try:
        with db_session:
            got = select("x.n for x in One if raw_sql(\"'$$' = '$$' || $v\")", {'One': db.One, 'raw_sql': core.raw_sql}, {'v': ''})[:]
            got2 = select("x.n for x in One if raw_sql(\"'$$$$' = $v\")", {'One': db.One, 'raw_sql': core.raw_sql}, {'v': '$$'})[:]
    except core.DBException as e:
        got = got2 = ['database error: %s' % type(e).__name__]
    if list(got) != [1] or list(got2) != [1]:
        ctx.mismatch('C06:SQLite-exec:rawsql-dollar', "raw_sql fragments with $$ do not read as a dollar sign on SQLite: %r %r" % (got, got2),
                     {'mode': 'rawsql-exec'})
    db.disconnect()
    # plain shapes under qmark and named
    con = sqlite3.connect(':memory:')
    con.execute('create table %s (x)' % sqlbuilding_quote(table))
    con.execute('insert into %s values (1)' % sqlbuilding_quote(table))
    provider = mockdb.make('sqlite', define).provider
    executed = 0
    for r in shapes:
        if not r['plain']:
            continue
        want = tuple(dec(v['v']) if v['t'] == 'str' else v['v'] for v in r['row'])
        for style in ('qmark', 'named'):
            sql, args = render_shape(provider, style, r['shape'], keys, table)
            try:
                got = con.execute(sql, args).fetchall()
            except sqlite3.Error as e:
                got = 'sqlite3 raises %s' % e
            executed += 1
            if got != [want]:
                ctx.mismatch('C06:SQLite-exec:params:%s' % style, 'SELECT %s under %s executed on SQLite: %r with %r -> %r, expected %r' % (
                    shape_str(r['shape']), style, sql, args, got, want), {'mode': 'shape-exec', 'style': style, 'shape': r['shape']})
    con.close()
    out['sqlite_statements_executed'] = executed
    # identifiers: a table and a column with the adversarial name exist under exactly that name
    names = [s for s in idstrs if len(s) <= (2 if quick else 3)]
    created = 0
    for name in names:
        got = ident_roundtrip(name)
        created += 1
        if got != (name, name, 'v'):
            ctx.mismatch('C06:SQLite-exec:ident', 'entity with table and column named %r on SQLite: %r' % (name, got), {'mode': 'ident-exec', 'name': name})
    out['sqlite_identifiers_created'] = created
    return out


def sqlbuilding_quote(name):
    return '"%s"' % name.replace('"', '""')


def ident_roundtrip(name):
    """Create an entity whose table and column are called `name`; return (table name, column name, stored value) as
    an independent sqlite3 connection sees them."""
    import os
    import tempfile
    fd, path = tempfile.mkstemp(suffix='.sqlite', dir=_scratch_dir[0])
    os.close(fd)
    try:
        db = core.Database()

        class E(db.Entity):
            _table_ = name
            a = Required(str, column=name)
        try:
            db.bind('sqlite', path, create_db=True)
            db.generate_mapping(create_tables=True)
            with db_session:
                E(a='v')
            with db_session:
                vals = select(e.a for e in E)[:]
            db.disconnect()
        except Exception as e:     # noqa
            return 'pony raises %s: %s' % (type(e).__name__, e)
        con = sqlite3.connect(path)
        try:
            tabs = [r[0] for r in con.execute("select name from sqlite_master where type = 'table' and name not like 'sqlite_%'")]
            if tabs != [name]:
                return ('tables', tabs)
            cols = [r[1] for r in con.execute('pragma table_info(%s)' % sqlbuilding_quote(name))]
            cols = [c for c in cols if c != 'id']
            stored = [r[0] for r in con.execute('select %s from %s' % (sqlbuilding_quote(name), sqlbuilding_quote(name)))]
        finally:
            con.close()
        if list(vals) != stored or len(cols) != 1 or len(stored) != 1:
            return ('read', list(vals), cols, stored)
        return (tabs[0], cols[0], stored[0])
    finally:
        os.unlink(path)


_scratch_dir = [None]


def replay(ctx, rep):
    """Re-execute one reported case: re-render it with the real Pony code and have TLC read it again (E2 modes), or
    re-run it on SQLite (E1 modes)."""
    mode = rep.get('mode')
    _scratch_dir[0] = ctx.scratch.dir
    empty = {'lits': [], 'flats': [], 'refs': [], 'likes': [], 'likep': 0, 'likes_len': 3, 'typed': []}
    if mode == 'literal':
        dbs = {prov: mockdb.make(prov, define) for prov in PROVIDERS}
        s = rep['s']
        lits, meta = literal_cases(dbs, [s] if rep['kind'] != 'ident' else [], [s] if rep['kind'] == 'ident' else [])
        keep = [i for i, m in enumerate(meta) if m[2] == rep['d'] and m[3] == rep['style'] and m[0] == rep['kind']]
        verdict, _ = tlc.evaluate('LiteralJudge', ctx.scratch, inputs=dict(empty, lits=[lits[i] for i in keep]))
        bad = {b['id']: b for b in verdict['lits']['bad']}
        for n, i in enumerate(keep):
            b = bad.get(n + 1)
            print('%s renders %r as %s (paramstyle %s); %s reads %s' % (meta[i][1], s, meta[i][5], rep['style'], rep['d'],
                  show_tokens(b['reads']) if b else 'exactly that value'))
        if bad:
            ctx.violations.append('replayed')
    elif mode == 'shape':
        tables, _ = tlc.evaluate('LiteralTables', ctx.scratch, inputs={'lexlen': 1, 'likep': 0, 'likes': 0, 'fmtlen': 0, 'n': 0, 'idn': 1, 'n3': 'none'})
        keys = {k['key']: k for k in tables['keys']}
        table = dec(tables['table'])
        provider = mockdb.make(rep['prov'], define).provider
        benign = [dict(it, s=['a']) if it['k'] == 'val' else it for it in rep['shape']]
        rsql, rargs = render_shape(provider, 'qmark', benign, keys, table)
        sql, args = render_shape(provider, rep['style'], rep['shape'], keys, table)
        flat = {'d': mockdb.DIALECTS[rep['prov']], 'style': rep['style'], 'shape': rep['shape'], 'text': enc(sql), 'args': ser_args(args), 'ref': 1}
        verdict, _ = tlc.evaluate('LiteralJudge', ctx.scratch, inputs=dict(empty, flats=[flat], refs=[{'text': enc(rsql), 'args': ser_args(rargs)}]))
        print('SELECT %s under %s -> %r with arguments %r' % (shape_str(rep['shape']), rep['style'], sql, args))
        for b in verdict['flats']['bad']:
            print('  reads %s, expected %s, skeleton %s' % (show_tokens(b['reads']), show_tokens(b['expected']), 'unchanged' if b['skeleton_same'] else 'CHANGED'))
            ctx.violations.append('replayed')
    elif mode == 'like':
        db = mockdb.make(rep['prov'], define)
        ast, sql, args = mockdb.translate(db, lambda: like_query(db, rep['op'], rep['p'], rep['const']))
        print('%s with %s %r on %s -> %r %r (judged by ./check C06 against LikeMatch)' % (
            OPS[rep['op']] % 'p', 'constant' if rep['const'] else 'parameter', rep['p'], rep['prov'], sql, args))
        ctx.violations.append('replayed')
    elif mode in ('echo', 'like-exec', 'rawsql-exec'):
        strs = [rep.get('p', ''), 'a', "a'", 'a%', 'a_', 'a!', 'a\\']
        db = sqlite_db(strs)
        with db_session:
            if mode == 'echo':
                print('select(%s for x in One) ->' % rep['s'], select('%s for x in One' % (rep['s'] if rep['s'][:1] in 'dtb0123456789-' and not rep['s'].isalpha() else repr(rep['s'])),
                      {'One': db.One, 'date': datetime.date, 'datetime': datetime.datetime, 'timedelta': datetime.timedelta})[:])
            elif mode == 'like-exec':
                print('stored %r; %s with %r ->' % (strs, OPS[rep['op']] % 'p', rep['p']), like_query(db, rep['op'], rep['p'], rep['const'])[:])
        ctx.violations.append('replayed')
    elif mode == 'ident-exec':
        print('entity with table/column %r -> %r' % (rep['name'], ident_roundtrip(rep['name'])))
        ctx.violations.append('replayed')
    else:
        print('case: %r (re-run ./check C06 to reproduce)' % (rep,))
        ctx.violations.append('replayed')
