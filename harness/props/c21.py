"""C21 - repeated reads in a session return the same value or fail loudly.

Specification: spec/PonyOCC.tla, invariant `RepeatableOrLoud`: every read of a non-volatile attribute returns
what the program saw first (or wrote itself), a fully loaded collection that was observed (set(p.items) /
len(p.items)) keeps its value, otherwise the session ends with UnrepeatableReadError.  Session 1 is the reader
(R, Q = re-delivering select, RC/LC = collection reads, GFU), the other sessions are committed concurrent
writers (W incl. link changes, D = delete) placed between any two operations of the reader.
Binding R on real threads (harness/sched_occ.py): the values the reader observes, the error family and the
committed rows are compared at every step.
"""
from .. import sched_occ as so

LEVEL = 'model_checking'

READER = ('R', 'Q', 'RC', 'LC')
WRITER = ('W', 'D')


def plan(tier):
    if tier == 'quick':
        return [
            # 2 rows (one inside P[1].items, one outside); attribute b is the link the collection is derived from,
            # or volatile (exempt), or optimistic=False / float (not exempt from repeatable reads)
            dict(name='c21-reader-writer', how='graph', limit=640,
                 cfg=dict(NS=2, NO=2, MaxOps=2, KB=('link', 'volatile', 'nonopt'), OpSet1=READER, OpSet=WRITER)),
            # scalar attributes; the reader also writes and commits in the middle of its db_session (what it wrote and
            # read back must stay protected after the commit); the writer updates / deletes once
            dict(name='c21-scalar-commit', how='graph', limit=260,
                 cfg=dict(NS=2, NO=1, MaxOps=4, MaxOpsN=1, OpSet1=('R', 'W', 'Q', 'CM'), OpSet=WRITER)),
            dict(name='c21-link-3ops-sim', how='simulate', num=180, depth=14,
                 cfg=dict(NS=2, NO=2, MaxOps=3, KB='link', OpSet1=READER + ('W', 'CM'), OpSet=WRITER + ('R',))),
        ]
    return [
        dict(name='c21-reader-writer', how='graph', limit=5000,
             cfg=dict(NS=2, NO=2, MaxOps=2, KB=('link', 'volatile', 'nonopt'), OpSet1=READER, OpSet=WRITER)),
        # negative control: with what Set.db_reverse_remove really does transcribed (RefPhantomRemove = FALSE)
        # TLC must find the RepeatableOrLoud counterexample
        dict(name='c21-negative-control', how='negative', expect='RepeatableOrLoud',
             cfg=dict(NS=2, NO=2, MaxOps=3, KB='link', OpSet1=('Q', 'RC', 'LC'), OpSet=('W',), Ref=False)),
        dict(name='c21-coverage', how='check', coverage=True,
             cfg=dict(NS=2, NO=2, MaxOps=2, KB='link', OpSet1=READER + ('W', 'GFU'), OpSet=WRITER + ('F', 'X'))),
        # reader and writer with 3 operations each, exhaustive
        dict(name='c21-link-3ops', how='check',
             cfg=dict(NS=2, NO=2, MaxOps=3, KB='link', OpSet1=READER, OpSet=WRITER)),
        # symmetric sessions: everybody reads, writes and reads collections
        dict(name='c21-link-symmetric', how='graph', limit=3000,
             cfg=dict(NS=2, NO=2, MaxOps=2, KB='link', OpSet=('R', 'W', 'Q', 'RC', 'LC'))),
        dict(name='c21-scalar-3ops', how='graph', limit=2500,
             cfg=dict(NS=2, NO=1, MaxOps=3, OpSet1=('R', 'Q', 'GFU', 'W'), OpSet=WRITER)),
        dict(name='c21-scalar-commit', how='graph', limit=2500,
             cfg=dict(NS=2, NO=1, MaxOps=4, MaxOpsN=1, KB=('opt', 'nonopt'), OpSet1=('R', 'W', 'Q', 'QR', 'CM'), OpSet=WRITER)),
        # one reader, two writers, programs <= 4: simulation
        dict(name='c21-3s-4ops-sim', how='simulate', num=2500, depth=24,
             cfg=dict(NS=3, NO=2, MaxOps=4, KB=('link', 'nonopt'), OpSet1=READER + ('W', 'GFU', 'CM'), OpSet=WRITER + ('R', 'F', 'CM'))),
    ]


def run(ctx):
    so.run_plan(ctx, plan(ctx.tier))
    ctx.assumptions += [
        'SQLite provider only; a writer is another pony db_session of the same process (its commit is what the reader may or may not see)',
        'collections: one-to-many Set loaded completely (set(p.items), len(p.items)); count()/is_empty()/partial loads and many-to-many are not modelled',
        'the reference behaviour for an item that leaves a fully loaded collection is UnrepeatableReadError at delivery time, as pony raises for an item that appears (Set.db_reverse_add)',
    ]


def replay(ctx, rep):
    so.replay_entry(ctx, rep)
