"""C30 - raw SQL parameter substitution is faithful.

Oracle: spec/RawSql.tla - Tokens (the `$expr` scanner), Intended (text with `$$` -> `$` and the k-th expression
replaced by a marker, plus the expression sources), DriverLex (what a DB-API driver of each paramstyle reads in a
statement text), Faithful (driver reading of the adapted text == Intended), AdaptAfter (the history of earlier
adaptations is irrelevant).

E2: the real core.adapt_sql (qmark, format, numeric, named, pyformat) and ormtypes.parse_raw_sql are run on every
    statement of length <= 4 (quick) / <= 5 plus `$`+5 (thorough) over {$ % ; ( ) . [ ] ' a space} with empty
    caches, and on every ordered pair of a core set (second statement adapted after the first: history dependence
    through the process-wide core.adapted_sql_cache).  spec/RawSqlJudge.tla judges each returned text; the values
    the returned code object binds (evaluated in a symbolic scope) are compared with the values of the
    expressions the spec extracted, in the order the spec's driver model assigns them.
E1: end to end on in-memory SQLite (qmark) through Database.select/get/exists/execute, Entity.select_by_sql /
    get_by_sql and raw_sql() inside queries, with a recording sqlite3 connection: the statement text and the
    values that reach the driver are judged the same way.
"""
import collections
import concurrent.futures
import itertools
import sqlite3
import warnings

from .. import tlc
from ..tlc import MachineryError
from pony.orm import core, ormtypes
from pony.orm.core import db_session, select, raw_sql, Optional, PrimaryKey

LEVEL = 'translation_validation'

SIG_CACHE = 'C30:adapt_sql:cache-key-doubled-percent'
SIG_PCT_EXPR = 'C30:adapt_sql:percent-doubled-inside-expression'
SIG_MERGE = 'C30:adapt_sql:named-placeholder-runs-into-following-name-character'
CHUNK = 30000


# ---------------------------------------------------------------------------------------------------
# a symbolic caller's scope: every name is a value that records what is done to it
class Sym(object):
    def __init__(self, src):
        self._src = src

    def __getattr__(self, name):
        if name.startswith('__'):
            raise AttributeError(name)
        return Sym('%s.%s' % (self._src, name))

    def __call__(self, *args):
        return Sym('%s(%s)' % (self._src, ', '.join(map(repr, args))))

    def __getitem__(self, key):
        return Sym('%s[%r]' % (self._src, key))

    def __mod__(self, other):
        return Sym('(%s %% %r)' % (self._src, other))

    def __rmod__(self, other):
        return Sym('(%r %% %s)' % (other, self._src))

    def __repr__(self):
        return self._src

    def __eq__(self, other):
        return isinstance(other, Sym) and other._src == self._src

    def __hash__(self):
        return hash(self._src)


class Scope(dict):
    def __missing__(self, name):
        if name.replace('_', 'a').isalnum():
            return Sym(name)
        raise KeyError(name)


def ev(code_or_src):
    """value of an expression (source or code object) in the symbolic scope -> ('v', repr) / ('e', exception type)"""
    try:
        return ('v', repr(eval(code_or_src, {'__builtins__': {}}, Scope())))
    except Exception as e:
        return ('e', type(e).__name__)


def compiles(src):
    try:
        compile(src, '<?>', 'eval')
        return True
    except Exception:
        return False


def expected_values(exprs):
    """what binding the expressions, in order, gives: ('v', [reprs]) or ('e', type of the first failure)"""
    vals = []
    for e in exprs:
        r = ev(e)
        if r[0] == 'e':
            return r
        vals.append(r[1])
    return ('v', vals)


# ---------------------------------------------------------------------------------------------------
# running the real functions
def clear_caches():
    core.adapted_sql_cache.clear()
    ormtypes.raw_sql_cache.clear()


def real_adapt(s, style):
    """-> (ok, hasargs, text, bound) with bound = ('v', list-or-dict of reprs) / ('e', type) / None"""
    try:
        text, code = core.adapt_sql(s, style)
    except Exception as e:
        return (0, 0, '', ('x', type(e).__name__))
    try:
        args = eval(code, {'__builtins__': {}}, Scope())
    except Exception as e:
        return (1, 1, text, ('e', type(e).__name__))
    if args is None:
        return (1, 0, text, None)
    if isinstance(args, dict):
        return (1, 1, text, ('v', {k: repr(v) for k, v in args.items()}))
    return (1, 1, text, ('v', [repr(v) for v in args]))


def real_items(s):
    try:
        items, codes = ormtypes.parse_raw_sql(s)
    except Exception as e:
        return (0, 0, [], ('x', type(e).__name__))
    t, k, vals, err = [], 0, [], None
    for it in items:
        if isinstance(it, str):
            t.extend(it)
        else:
            k += 1
            t.append('#%d' % k)
            r = ev(it[1])
            if r[0] == 'e' and err is None:
                err = r
            vals.append(r[1])
    if len(codes) != k:
        t.append('#codes!')           # items and codes must list the same expressions
    return (1, 1 if k else 0, t, (err or ('v', vals)) if k else None)


def outcome_all(s, styles):
    clear_caches()
    outs = [real_adapt(s, st) for st in styles]
    outs.append(real_items(s))
    return outs


def case_of(s, styles, outs, hist=()):
    names = list(styles) + ['items']
    plain = all(o[0] == 1 and o[1] == 0 and ''.join(o[2]) == s for o in outs) and len(outs) == len(names)
    return {'s': list(s), 'hist': [list(h) for h in hist], 'same': 1 if plain else 0,
            'outs': [] if plain else [{'st': st, 'ok': o[0], 'h': o[1], 't': list(o[2])} for st, o in zip(names, outs)]}


# ---------------------------------------------------------------------------------------------------
POOL = None            # one pool for all TLC runs of a check: at most 3 JVMs at a time


def judge_start(ctx, cases, tag):
    """TLC judges the cases in chunks, in the background; -> handle for judge_finish"""
    chunks = [cases[k:k + CHUNK] for k in range(0, len(cases), CHUNK)]

    def one(n, chunk):
        out, _ = tlc.evaluate('RawSqlJudge', ctx.scratch, inputs={'cases': chunk}, tag='%s-%d' % (tag, n))
        return out
    return [(len(chunk), POOL.submit(one, n, chunk)) for n, chunk in enumerate(chunks)]


def judge_finish(handle):
    """-> (records by global index, number judged)"""
    recs, judged = {}, 0
    for n, (size, fut) in enumerate(handle):
        out = fut.result()
        if out['n'] != size:
            raise MachineryError('TLC judged %d of %d cases' % (out['n'], size))
        judged += out['n']
        for r in out['recs']:
            recs[n * CHUNK + r['i'] - 1] = r
    return recs, judged


def join(chars):
    return ''.join(chars)


def assess(ctx, stats, fn_of, s, hist, styles_outs, rec):
    """Compare one judged case.  styles_outs: list of (style, real outcome) in the order sent to TLC."""
    exprs = [join(e) for e in rec['exprs']]
    dexprs = [join(e) for e in rec['dexprs']]
    py_valid = all(compiles(e) for e in exprs)
    want = expected_values(exprs) if py_valid else None
    for (st, o), jo in zip(styles_outs, rec['outs']):
        if jo['st'] != st:
            raise MachineryError('judge output out of step')
        stats['outputs'] += 1
        fn = fn_of(st)
        rep = {'mode': 'adapt', 's': s, 'hist': list(hist), 'style': st}
        shown = '%s(%r%s)%s' % (fn, s, '' if st == 'items' else ', %r' % st,
                                 ' after adapting %r' % (list(hist),) if hist else '')
        pct_expr = st in ('format', 'pyformat') and dexprs
        if rec['rej']:
            if jo['v'] != 'ok':
                sig = SIG_CACHE if jo['asb'] else 'C30:%s:accepts-malformed-statement' % fn
                ctx.mismatch(sig, '%s returned %r although the statement is malformed' % (shown, o[2]), rep)
            continue
        if jo['v'] == 'raised':
            stats['raised'] += 1
            if py_valid:
                if pct_expr and not all(compiles(e) for e in dexprs):
                    ctx.mismatch(SIG_PCT_EXPR, '%s raised %s: the %% inside the expression was doubled' % (shown, o[3][1]), rep)
                else:
                    ctx.mismatch('C30:%s:raises-on-valid-statement' % fn, '%s raised %s; expressions %r' % (shown, o[3][1], exprs), rep)
            continue
        if jo['v'] == 'bad':
            sig = SIG_CACHE if jo['asb'] else SIG_MERGE if jo['merge'] else 'C30:%s:unfaithful-text' % fn
            ctx.mismatch(sig, '%s -> text %r with%s arguments: a %s driver does not read the statement in it (expressions %r)' % (
                shown, join(o[2]), '' if o[1] else 'out', st, exprs), rep)
            continue
        # the text is faithful: which values are bound where
        if not exprs:
            continue
        if not py_valid:
            stats['invalid-python-accepted'] += 1
            continue
        stats['bindings'] += 1
        refs = [join(r) for r in jo['refs']]
        got = bound_in_order(st, o[3], refs, len(exprs))
        if got != want:
            if pct_expr and got == expected_values(dexprs):
                ctx.mismatch(SIG_PCT_EXPR, '%s binds %r instead of %r: the %% inside the expression was doubled' % (shown, got[1], want[1]), rep)
            else:
                ctx.mismatch('C30:%s:wrong-values-bound' % fn, '%s binds %r, the expressions %r evaluate to %r' % (shown, got, exprs, want), rep)


def bound_in_order(st, bound, refs, n):
    """the values the driver would substitute for the 1st, 2nd, ... placeholder"""
    if bound is None:
        return ('v', [])
    if bound[0] != 'v':
        return bound
    vals = bound[1]
    if st == 'items':
        return ('v', list(vals))
    try:
        if isinstance(vals, dict):
            if set(vals) != set(refs):
                return ('v', ['<keys %r for placeholders %r>' % (sorted(vals), refs)])
            return ('v', [vals[r] for r in refs])
        if len(vals) != len(set(refs)):
            return ('v', ['<%d arguments for placeholders %r>' % (len(vals), refs)])
        if any(not 1 <= int(r) <= len(vals) for r in refs):
            raise IndexError
        return ('v', [vals[int(r) - 1] for r in refs])
    except (KeyError, IndexError, ValueError):
        return ('v', ['<placeholders %r do not match the arguments>' % (refs,)])


def start_pairs(ctx, tab, names, stats):
    core_set = sorted(''.join(c) for c in tab['core'])
    seen = {}
    pairs = 0
    for st in names:
        for s1 in core_set:
            for s2 in core_set:
                clear_caches()
                if st == 'items':
                    real_items(s1)
                    o = real_items(s2)
                else:
                    real_adapt(s1, st)
                    o = real_adapt(s2, st)
                pairs += 1
                key = (s2, st, o[0], o[1], join(o[2]), repr(o[3]))
                if key not in seen:
                    seen[key] = (s1, o)
                else:
                    stats['pair_outputs_identical_to_an_earlier_history'] += 1
    keys = sorted(seen)
    pcases = [{'s': list(k[0]), 'hist': [list(seen[k][0])], 'same': 0,
               'outs': [{'st': k[1], 'ok': seen[k][1][0], 'h': seen[k][1][1], 't': list(seen[k][1][2])}]} for k in keys]
    return judge_start(ctx, pcases, 'pairs'), keys, seen, pairs


def fn_of(st):
    return 'parse_raw_sql' if st == 'items' else 'adapt_sql'


# ---------------------------------------------------------------------------------------------------
def run(ctx):
    global POOL
    POOL = concurrent.futures.ThreadPoolExecutor(max_workers=3)
    try:
        run_all(ctx)
    finally:
        POOL.shutdown()


def run_all(ctx):
    warnings.filterwarnings('ignore', category=SyntaxWarning)       # compile() of e.g. `()()` in the enumerated expressions
    tab, _ = tlc.evaluate('RawSqlTables', ctx.scratch, inputs={'tier': ctx.tier})
    law = POOL.submit(tlc.evaluate, 'RawSqlLaws', ctx.scratch)        # ASSUMEs only: TLC fails if a law does not hold
    alphabet, styles = tab['alphabet'], tab['styles']
    names = list(styles) + ['items']

    # -- E2a: every statement, empty caches ---------------------------------------------------------
    stmts = [''.join(w) for n in range(1, tab['maxlen'] + 1) for w in itertools.product(alphabet, repeat=n)]
    if tab['exprfirst']:
        stmts += ['$' + ''.join(w) for w in itertools.product(alphabet, repeat=tab['exprfirst'])]
    if len(stmts) != tab['count']:
        raise MachineryError('statement space: %d enumerated, the spec counts %d' % (len(stmts), tab['count']))
    stmts += sorted(''.join(w) for w in tab['extra'] if ''.join(w) not in set(stmts))
    stats = collections.Counter()
    outs_all = [outcome_all(s, styles) for s in stmts]
    cases = [case_of(s, styles, o) for s, o in zip(stmts, outs_all)]
    h_stmts = judge_start(ctx, cases, 'stmts')
    h_pairs, keys, seen, pairs = start_pairs(ctx, tab, names, stats)
    h_e1 = start_e1(ctx, stats)

    recs, judged = judge_finish(h_stmts)
    picked = 0
    for k, rec in sorted(recs.items()):
        assess(ctx, stats, fn_of, stmts[k], (), list(zip(names, outs_all[k])), rec)
        if rec['exprs'] and not rec['rej'] and len(rec['exprs'][0]) >= 3 and all(o[0] for o in outs_all[k]):
            picked += 1
            if picked % 17 == 1:
                ctx.sample({'statement': stmts[k], 'expressions': [join(e) for e in rec['exprs']],
                            'adapted': {st: join(o[2]) for st, o in zip(names[:-1], outs_all[k]) if o[0]}}, limit=6)
    stats['statements'] = len(stmts)
    stats['with_expression'] = sum(1 for r in recs.values() if r['exprs'] and not r['rej'])
    stats['rejected_by_spec'] = sum(1 for r in recs.values() if r['rej'])
    outputs_single = len(stmts) * len(names)

    # -- E2b: ordered pairs of the core set: the second adaptation after the first ---------------
    precs, pjudged = judge_finish(h_pairs)
    for n, k in enumerate(keys):
        rec = precs.get(n)
        if rec is None:
            continue        # plain pass-through, faithful
        assess(ctx, stats, fn_of, k[0], (seen[k][0],), [(k[1], seen[k][1])], rec)
    stats['pairs'] = pairs
    stats['pair_distinct_outputs_judged'] = len(keys)
    core_set = tab['core']

    # -- E1: end to end on SQLite -------------------------------------------------------------------
    e1 = finish_e1(ctx, stats, h_e1)
    law.result()

    ctx.coverage.update({
        'programs': len(stmts) + pairs + e1,
        'disagreements_checked': outputs_single + pairs + e1,
        'exhaustive': True,
        'statements': len(stmts), 'statements_with_expression': stats['with_expression'],
        'statements_rejected_by_spec': stats['rejected_by_spec'],
        'outputs_judged_by_tlc': judged * len(names) + pjudged, 'ordered_pairs': pairs,
        'distinct_pair_outputs_judged': len(keys), 'bindings_compared': stats['bindings'],
        'real_call_raised_on_accepted_statement': stats['raised'], 'e1_statements_executed': e1,
        'rule': 'program = one statement over %r (all of length <= %d%s) adapted by the real adapt_sql for 5 paramstyles and by '
                'parse_raw_sql with empty caches, or one ordered pair of the %d core statements x 6 functions/styles (second '
                'adapted after the first), or one end-to-end call on SQLite; every returned text is judged by TLC (RawSqlJudge), '
                'every bound value compared with the value of the expression the spec extracted' % (
                    ''.join(alphabet), tab['maxlen'], ', plus "$" + every 5 letters' if tab['exprfirst'] else '', len(core_set)),
        'checker_cmd': 'tlc RawSqlTables, tlc RawSqlJudge (RawSql.Faithful, ASSUME AdaptIsFaithful)',
    })
    ctx.assumptions += [
        'DB-API driver model (RawSql.DriverLex): qmark `?`, numeric `:N`, named `:name`, format `%s`/`%%`, pyformat `%(name)s`/`%%`; '
        'format/pyformat drivers apply %-formatting only when arguments are passed',
        'whether an extracted expression is a Python expression, and its value in the caller\'s scope, are decided by CPython '
        '(compile / eval in a symbolic scope)',
        'alphabet without backslash and double quote; triple-quoted strings cannot occur below 8 characters',
    ]


# ---------------------------------------------------------------------------------------------------
# E1
class Recorder(object):
    log = []


class TraceCursor(sqlite3.Cursor):
    def execute(self, sql, *args):
        Recorder.log.append((sql, args[0] if args else None))
        return sqlite3.Cursor.execute(self, sql, *args)


class TraceConnection(sqlite3.Connection):
    def cursor(self, factory=None):
        return sqlite3.Connection.cursor(self, TraceCursor)


G_VALUE = 40          # a module-level name for `$G_VALUE`


class Box(object):
    def __init__(self, **kw):
        self.__dict__.update(kw)


def e1_scope():
    return dict(x=1, y='b', d={'k': 7}, l=[3, 4], o=Box(p=Box(q=9)), f=lambda v: v * 2, n=None)


def e1_call(kind, db, A, stmt):
    """The caller whose scope the $expressions see: the names below are its locals, G_VALUE a global."""
    x, y, d, l, o, f, n = 1, 'b', {'k': 7}, [3, 4], Box(p=Box(q=9)), (lambda v: v * 2), None
    if kind == 'Database.select': return db.select(stmt)
    if kind == 'Database.get': return db.get(stmt)
    if kind == 'Database.exists': return db.exists(stmt)
    if kind == 'Database.execute': return db.execute(stmt).fetchall()
    if kind == 'Entity.select_by_sql': return [a.id for a in A.select_by_sql(stmt)]
    if kind == 'Entity.get_by_sql': return A.get_by_sql(stmt).id
    if kind == 'raw_sql in filter': return sorted(a.id for a in select(a for a in A if raw_sql(stmt)))
    if kind == 'raw_sql in result': return sorted(select(raw_sql(stmt) for a in A).without_distinct()[:], key=repr)
    if kind == 'raw_sql in order_by': return [a.id for a in select(a for a in A).order_by(raw_sql(stmt))]
    raise MachineryError(kind)


E1_SELECT = [
    'select $x', 'select $x, $y', 'select $(x+1)', 'select $o.p.q', 'select $f(x)', "select $d['k']", 'select $l[1]',
    'select $x; ', "select $x , '$$', $y", 'select $G_VALUE', 'select 7 % $x', 'select $f(d[\'k\']).real',
    'select $o . p . q', 'select $l [0]', "select $(d['k'] + l[0])", "select $f(')')", 'select $n', "select '%', $y;, $x;",
    "select $f('$x')", 'select $x where 1 = $(x)',
]


def start_e1(ctx, stats):
    db = core.Database()

    class A(db.Entity):
        id = PrimaryKey(int)
        v = Optional(int)
        s = Optional(str, nullable=True)
    db.bind('sqlite', ':memory:', factory=TraceConnection)
    db.generate_mapping(create_tables=True)
    with db_session:
        for i, (v, s) in enumerate([(1, 'a'), (2, 'b'), (7, 'a'), (7, None)], 1):
            A(id=i, v=v, s=s)
    runs = []          # (label, statement the driver should see, recorded (sql, args), scope, result, error)
    scope = dict(e1_scope(), G_VALUE=G_VALUE)

    def record(label, stmt, call, sc):
        clear_caches()
        del Recorder.log[:]
        try:
            with db_session:
                res = call()
            err = None
        except Exception as e:
            res, err = None, e
        runs.append((label, stmt, list(Recorder.log), sc, res, err))

    for stmt in E1_SELECT:
        for kind in ('Database.select', 'Database.get', 'Database.exists', 'Database.execute'):
            record(kind, stmt, lambda: e1_call(kind, db, A, stmt), scope)
        bare = stmt[len('select '):]
        record('Database.select (select added)', 'select ' + bare, lambda: e1_call('Database.select', db, A, bare), scope)
    other = dict(x=100, y='zz')
    for stmt in ['select $x, $y', 'select $(x + 1)']:
        record('Database.select (explicit globals)', stmt, lambda: db.select(stmt, other, {}), other)
        record('Database.select (explicit locals)', stmt, lambda: db.select(stmt, {}, other), other)
        record('Database.execute (explicit globals)', stmt, lambda: db.execute(stmt, other, {}).fetchall(), other)
        record('Database.get (explicit locals)', stmt, lambda: db.get(stmt, {}, other), other)
        record('Database.exists (explicit locals)', stmt, lambda: db.exists(stmt, {}, other), other)
    for stmt in ['select * from A where v = $l[1] + $l[0] and s = $y;', 'select id, v, s from A where id = $(x + 1)',
                 "select * from A where s = $o.p.q or '$$' = $y"]:
        record('Entity.select_by_sql', stmt, lambda: e1_call('Entity.select_by_sql', db, A, stmt), scope)
        record('Entity.select_by_sql (explicit locals)', stmt, lambda: [a.id for a in A.select_by_sql(stmt, {}, dict(scope, x=2))], dict(scope, x=2))
    for stmt in ['select * from A where id = $(x+1)', "select * from A where v = $d['k'] and s is null"]:
        record('Entity.get_by_sql', stmt, lambda: e1_call('Entity.get_by_sql', db, A, stmt), scope)
    # several fragments have the same parameter types: each must get its own translation
    for frag in ['a.v = $x', "a.v = $d['k'] and a.s = $y;", 'a.id = $(x + 1) or a.v % $l[0] = $(x);', "a.s = '$$' or a.v = $f(x)",
                 'a.id = $x', 'a.v > $x;', "a.id = $l[0] and a.s = $y"]:
        record('raw_sql in filter', frag, lambda: e1_call('raw_sql in filter', db, A, frag), scope)
    for frag in ['a.v + $x', 'a.id - $x;', "a.s || $y || $d['k'];"]:
        record('raw_sql in result', frag, lambda: e1_call('raw_sql in result', db, A, frag), scope)
    for frag in ['abs(a.v - $l[0]), a.id', 'a.id * $(x - 2);']:
        record('raw_sql in order_by', frag, lambda: e1_call('raw_sql in order_by', db, A, frag), scope)

    # the statements (for raw_sql(): the fragments) go to TLC as E2 cases with the recorded driver text
    cases, meta = [], []
    for label, stmt, log, sc, res, err in runs:
        user = [(sql, args) for sql, args in log if not sql.startswith(('BEGIN', 'COMMIT', 'ROLLBACK', 'PRAGMA'))]
        if err is not None or len(user) != 1:
            ctx.mismatch('C30:e1:%s:call-failed' % label.split(' ')[0], '%s(%r) failed: %r; statements seen by the driver: %r' % (label, stmt, err, user),
                         {'mode': 'e1', 'label': label, 'stmt': stmt})
            continue
        sql, args = user[0]
        if label.startswith('raw_sql'):
            # the statement the driver received must contain the fragment's text (the rest is the translator's)
            cases.append({'s': list(stmt), 'hist': [], 'same': 0,
                          'outs': [{'st': 'embedded', 'ok': 1, 'h': 0 if args is None else 1, 't': list(sql)}]})
        else:
            cases.append({'s': list(stmt), 'hist': [], 'same': 0,
                          'outs': [{'st': 'qmark', 'ok': 1, 'h': 0 if args is None else 1, 't': list(sql)}]})
        meta.append((label, stmt, sql, args, sc, res))
    return judge_start(ctx, cases, 'e1'), meta


def finish_e1(ctx, stats, handle):
    h, meta = handle
    recs, _ = judge_finish(h)
    for k, (label, stmt, sql, args, sc, res) in enumerate(meta):
        rec = recs.get(k)
        rep = {'mode': 'e1', 'label': label, 'stmt': stmt}
        if rec is None or rec['rej']:
            raise MachineryError('E1 statement %r has no expression according to the spec' % stmt)
        exprs = [join(e) for e in rec['exprs']]
        jo = rec['outs'][0]
        if jo['v'] != 'ok':
            ctx.mismatch('C30:e1:%s:unfaithful-text' % label.split(' ')[0], '%s(%r): the driver received %r' % (label, stmt, sql), rep)
            continue
        want = [eval(e, {}, sc) for e in exprs]
        got = list(args) if args is not None else []
        stats['bindings'] += 1
        if got != want or [type(v) for v in got] != [type(v) for v in want]:
            ctx.mismatch('C30:e1:%s:wrong-values-bound' % label.split(' ')[0],
                         '%s(%r): the driver received %r with %r; the expressions %r are %r in the caller\'s scope' % (label, stmt, sql, got, exprs, want), rep)
            continue
        if label.startswith('Database.select') and len(exprs) == len(stmt.split(',')) and 'where' not in stmt and '%' not in stmt and "'" not in stmt.replace("d['k']", '').replace("f(')')", ''):
            # a select list made of the parameters only: the row that comes back is the bound values
            row = res[0] if not isinstance(res[0], tuple) else list(res[0])
            if (row if isinstance(row, list) else [row]) != want:
                ctx.mismatch('C30:e1:Database.select:wrong-result', '%s(%r) returned %r, the expressions are %r' % (label, stmt, res, want), rep)
    ctx.sample({'end_to_end': [m[0] + ': ' + m[1] for m in meta[5:60:18]], 'driver_saw': [(m[2], repr(m[3])) for m in meta[5:60:18]]}, limit=8)
    return len(meta)


def e1_items(frag):
    """the fragment as parse_raw_sql itemises it (judged exhaustively in E2a); here it only yields the expressions"""
    items, codes = ormtypes.parse_raw_sql(frag)
    t, k = [], 0
    for it in items:
        if isinstance(it, str):
            t.extend(it)
        else:
            k += 1
            t.append('#%d' % k)
    return t


def replay(ctx, rep):
    if rep['mode'] == 'e1':
        print('end-to-end case %s: %r - rerun ./check C30 --tier quick to see it in context' % (rep['label'], rep['stmt']))
        ctx.violations.append('replayed')
        return
    clear_caches()
    st = rep['style']
    for h in rep['hist']:
        print('adapt %r (%s) first -> %r' % (h, st, real_items(h) if st == 'items' else real_adapt(h, st)))
    o = real_items(rep['s']) if st == 'items' else real_adapt(rep['s'], st)
    print('%s(%r, %r) -> ok=%s has-arguments=%s text=%r bound=%r' % (fn_of(st), rep['s'], st, o[0], o[1], join(o[2]), o[3]))
    case = {'s': list(rep['s']), 'hist': [list(h) for h in rep['hist']], 'same': 0, 'outs': [{'st': st, 'ok': o[0], 'h': o[1], 't': list(o[2])}]}
    out, _ = tlc.evaluate('RawSqlJudge', ctx.scratch, inputs={'cases': [case]})
    for r in out['recs']:
        print('spec: rejected=%s expressions=%r verdict=%s as-built-cache=%s' % (
            r['rej'], [join(e) for e in r['exprs']], r['outs'][0]['v'], r['outs'][0]['asb']))
        assess(ctx, collections.Counter(), fn_of, rep['s'], tuple(rep['hist']), [(st, o)], r)
