"""C14 - decided by spec/PonySession.tla: TLC checks the specification's invariants and action properties
exhaustively in the bounded model; behaviours of the exported state graph are replayed into the real ORM on
SQLite (harness/session.py) and this property's comparator decides (see harness/session_check.py).
spec/PonyKeys.tla adds composite keys: a deterministic model of the identity map's key indexes and of the save queue."""
from .. import session_check, session_replay, keys_c14

LEVEL = 'model_checking'


def run(ctx):
    session_check.run(ctx, 'C14')
    quick = ctx.tier == 'quick'
    # graph of 5 (quick) / 7 (thorough) calls with q never NULL (a NULL key part is covered by p); the exhaustive check of the
    # specification itself runs over the full alphabet two levels deeper
    res, stats, found = keys_c14.run(ctx, 1500 if quick else 15000, 6 if quick else 8, ctx.seed, check_level=8 if quick else 10, qnull=False)
    keys_c14.report(ctx, 'C14', res, stats, found)
    # and exhaustively: every sequence of at most 2 (quick) / 3 (thorough) calls over the full alphabet
    xstats, xfound = keys_c14.run_exhaustive(ctx, 2 if quick else 3, ctx.seed)
    for cat, what, trace in xfound:
        if cat in ('keys', 'crash'):
            ctx.mismatch('C14:compkey:%s:%s:%s' % (cat, trace[-1].get('op'), trace[-1].get('out')), what, {'keys_trace': trace})
    ctx.coverage['traces_validated_against_impl'] += xstats['sequences']
    ctx.coverage['composite_key_model_exhaustive'] = xstats
    if not quick:
        res, stats, found = keys_c14.run(ctx, 5000, 5, ctx.seed + 1, check_level=6, qnull=True)
        for cat, what, trace in found:
            if cat in ('keys', 'crash'):
                ctx.mismatch('C14:compkey:%s:%s:%s' % (cat, trace[-1].get('op'), trace[-1].get('out')), what, {'keys_trace': trace})
        ctx.coverage['traces_validated_against_impl'] += stats['behaviours']
        ctx.coverage['composite_key_model_full_alphabet'] = stats


def replay(ctx, rep):
    if 'keys_trace' in rep:
        keys_c14.replay(ctx, rep)
        ctx.violations.append('replayed')
        return
    session_replay.replay(ctx, rep)
