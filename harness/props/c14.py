"""C14 - decided by spec/PonySession.tla: TLC checks the specification's invariants and action properties
exhaustively in the bounded model; behaviours of the exported state graph are replayed into the real ORM on
SQLite (harness/session.py) and this property's comparator decides (see harness/session_check.py).
spec/PonyKeys.tla adds composite keys: a deterministic model of the identity map's key indexes and of the save queue."""
from .. import session_check, session_replay, keys_c14

LEVEL = 'model_checking'


def run(ctx):
    session_check.run(ctx, 'C14')
    quick = ctx.tier == 'quick'
    res, stats, found = keys_c14.run(ctx, 1500 if quick else 15000, 4 if quick else 6, ctx.seed, check_level=6 if quick else 9)
    keys_c14.report(ctx, 'C14', res, stats, found)


def replay(ctx, rep):
    if 'keys_trace' in rep:
        keys_c14.replay(ctx, rep)
        ctx.violations.append('replayed')
        return
    session_replay.replay(ctx, rep)
