"""Instrumentation of the DB-API boundary and of the SQLite provider's locks, from outside /repo.

* `Recorder` collects one event per observable action of spec/PonyTxn.tla (the event vocabulary is the input
  format of spec/PonyTxnTrace.tla) and holds the fault plan: "the k-th DB-API call of the scenario raises
  sqlite3.OperationalError / kills the process".
* `make_factory(rec)` returns a sqlite3.Connection subclass (with a Cursor subclass) that is passed to
  `Database.bind('sqlite', file, factory=...)`; pony forwards it to sqlite3.connect, so every connect, cursor,
  execute, executemany, commit, rollback, close of the provider goes through it.
* `WrapperLock` replaces provider.transaction_lock / pre_transaction_lock (looked up by attribute on each use).
"""
import json
import os
import sqlite3
import threading

CONN_PER = 10          # connection ids of actor a are (a-1)*CONN_PER + 1 ..  (ConnPer of the trace spec)

EV_DEFAULTS = dict(a=0, ev='', op='', conn=0, kind='none', w=0, out='ok', form='cm', retry=0, dbr=False,
                   result='none', runs=0, b=0, locked=False, pooled=0, in_tx=False, closed=(), dump=())


class Crash(BaseException):
    pass


class Recorder:
    """Event log + fault plan of one scenario."""

    def __init__(self, sched=None, sink=None):
        self.events = []
        self.sched = sched
        self.sink = sink                  # file object: events are also appended there (crash / fork scenarios)
        self.local = threading.local()
        self.nconn = {}                   # actor -> connections opened
        self.nwrite = {}                  # actor -> write ids handed out
        self.pending = {}                 # actor -> [(w, predicate(sql, args))] writes not yet seen at the DB-API
        self.calls = 0                    # DB-API calls seen while armed
        self.armed = False
        self.fault_at = None              # index (1-based) of the DB-API call that fails
        self.fault_mode = 'fail'          # 'fail' | 'crash'
        self.fault_hit = None             # (actor, op) of the call that failed
        self.call_log = []                # (actor, op) per armed DB-API call
        self.unexpected = []              # natural DB-API failures (not injected)
        self.closed = {}                  # actor -> [conn ids with a close() call]
        self.default_actor = 1            # threads that never called set_actor
        self.fail_next = None             # DB-API op name: the next call of that kind fails (one shot)
        self.nfaults = 0

    # -- actors -------------------------------------------------------------------------------------------
    def set_actor(self, a):
        self.local.actor = a

    @property
    def actor(self):
        return getattr(self.local, 'actor', None) or self.default_actor

    def point(self):
        """A scheduling point: the calling worker waits until the controller lets it continue."""
        if self.sched is not None and self.armed:
            self.sched.point()

    # -- events -------------------------------------------------------------------------------------------
    def emit(self, ev, **kw):
        e = dict(EV_DEFAULTS)
        e['ev'] = ev
        e['a'] = kw.pop('a', None) or self.actor
        e.update(kw)
        e['closed'] = list(e['closed'])
        if e['ev'] == 'Body' and e['op'] in ('write', 'rawwrite') and '_what' not in e:
            e['_what'] = ['value', e['w']]
        e['dump'] = list(e['dump'])
        self.events.append(e)
        if self.sink is not None:
            self.sink.write(json.dumps(e) + '\n')
            self.sink.flush()
        return e

    def new_write(self, pred):
        a = self.actor
        n = self.nwrite.get(a, 0) + 1
        self.nwrite[a] = n
        w = 100 * a + n
        self.pending.setdefault(a, []).append((w, pred))
        return w

    def match_write(self, sql, args):
        lst = self.pending.get(self.actor, [])
        for i, (w, pred) in enumerate(lst):
            if pred(sql, args):
                del lst[i]
                return w
        return 0

    def forget_pending(self):
        self.pending[self.actor] = []

    # -- the DB-API call wrapper ----------------------------------------------------------------------------
    def dbcall(self, op, conn_id, kind, sql, args, real):
        """Log one DB-API call and perform it (or fail / crash instead if it is the planned fault)."""
        if not self.armed:
            return real()
        self.point()
        self.calls += 1
        a = self.actor
        self.call_log.append((a, op if op != 'exec' else kind, sql[:30] if sql else ''))
        w = 0
        if op == 'exec' and kind == 'write':
            w = self.match_write(sql, args)
        if self.fault_at == self.calls or (self.fail_next is not None and self.fail_next == op):
            self.fail_next = None
            self.nfaults += 1
            self.fault_hit = (a, op, kind)
            if self.fault_mode == 'crash':
                self.emit('Db', op=op, conn=conn_id, kind=kind, w=w, out='crash')
                os._exit(77)
            self.emit('Db', op=op, conn=conn_id, kind=kind, w=w, out='fail')
            if op == 'close':
                self.closed.setdefault(a, []).append(conn_id)
            if w:
                self.pending.setdefault(a, []).insert(0, (w, lambda s, g: True))
            raise sqlite3.OperationalError('injected fault at DB-API call %d (%s)' % (self.calls, op))
        try:
            r = real()
        except sqlite3.Error as e:
            self.unexpected.append((a, op, kind, repr(e)))
            self.emit('Db', op=op, conn=conn_id, kind=kind, w=w, out='fail')
            raise
        self.emit('Db', op=op, conn=conn_id, kind=kind, w=w, out='ok')
        if op == 'close':
            self.closed.setdefault(a, []).append(conn_id)
        return r

    def new_conn_id(self):
        a = self.actor
        return (a - 1) * CONN_PER + self.nconn.get(a, 0) + 1

    def conn_opened(self):
        a = self.actor
        self.nconn[a] = self.nconn.get(a, 0) + 1


def sql_kind(sql):
    s = sql.lstrip().upper()
    if s.startswith('BEGIN'):
        return 'begin'
    if s.startswith('PRAGMA'):
        return 'pragma'
    if s.startswith(('INSERT', 'UPDATE', 'DELETE', 'CREATE', 'DROP', 'ALTER', 'REPLACE')):
        return 'write'
    return 'read'


def make_factory(rec):
    class Cur(sqlite3.Cursor):
        def execute(self, sql, *a):
            con = self.connection
            return rec.dbcall('exec', con.cid, sql_kind(sql), sql, a[0] if a else (),
                              lambda: sqlite3.Cursor.execute(self, sql, *a))

        def executemany(self, sql, seq):
            con = self.connection
            seq = list(seq)
            return rec.dbcall('exec', con.cid, sql_kind(sql), sql, seq,
                              lambda: sqlite3.Cursor.executemany(self, sql, seq))

    class Con(sqlite3.Connection):
        def __init__(self, *a, **kw):
            self.cid = rec.new_conn_id()
            self.creator_pid = os.getpid()
            self.creator_actor = rec.actor
            rec.dbcall('connect', self.cid, 'none', '', (), lambda: sqlite3.Connection.__init__(self, *a, **kw))
            if rec.armed:
                rec.conn_opened()

        def cursor(self, *a, **kw):
            return rec.dbcall('cursor', self.cid, 'none', '', (), lambda: sqlite3.Connection.cursor(self, Cur))

        def execute(self, sql, *a):          # SQLitePool._connect issues its set-up PRAGMAs through this
            return rec.dbcall('exec', self.cid, sql_kind(sql), sql, a[0] if a else (),
                              lambda: sqlite3.Connection.execute(self, sql, *a))

        def commit(self):
            return rec.dbcall('commit', self.cid, 'none', '', (), lambda: sqlite3.Connection.commit(self))

        def rollback(self):
            return rec.dbcall('rollback', self.cid, 'none', '', (), lambda: sqlite3.Connection.rollback(self))

        def close(self):
            return rec.dbcall('close', self.cid, 'none', '', (), lambda: sqlite3.Connection.close(self))

    return Con


class WrapperLock:
    """Stands in for threading.Lock in provider.transaction_lock / pre_transaction_lock."""

    def __init__(self, rec, name):
        self.rec = rec
        self.name = name          # 'pre' | 'tl'
        self.real = threading.Lock()

    def locked(self):
        return self.real.locked()

    def acquire(self, blocking=True, timeout=-1):
        rec = self.rec
        if not rec.armed:
            return self.real.acquire(blocking, timeout)
        if rec.sched is not None:
            rec.sched.point(wait=lambda: not self.real.locked())     # a blocked acquirer is reported, not waited for
            ok = self.real.acquire(False)
            assert ok, 'scheduler let a worker through a held lock'
        else:
            ok = self.real.acquire(False)
            if not ok:
                rec.emit('Blocked', op=self.name)
                raise RuntimeError('lock %s is held: a single-threaded run would block forever' % self.name)
        rec.emit('Lock', op='pre' if self.name == 'pre' else 'acquired')   # logged while the lock is held
        return True

    def release(self):
        rec = self.rec
        if rec.armed:
            rec.point()
            if self.name == 'tl':
                rec.emit('Lock', op='releasing')                       # logged while the lock is still held
        self.real.release()
        if rec.armed and self.name == 'tl' and rec.sched is not None:
            rec.sched.hint = 'released'

    __enter__ = acquire

    def __exit__(self, *a):
        self.release()
