"""Per-property registration data lives in harness/props/cNN.reg.json:
   {"category": <level>, "text": ..., "note": ..., "technique": ..., "design_ref": ..., "engine": ...}
tools/mkmanifest.py turns them into MANIFEST.json; properties without a file are listed under not_applicable."""
import glob
import json
import os

_here = os.path.dirname(os.path.abspath(__file__))
ALL_IDS = ['C%02d' % i for i in range(1, 37)]
CHECKS = {}
for _p in sorted(glob.glob(os.path.join(_here, 'props', 'c*.reg.json'))):
    with open(_p) as _f:
        CHECKS[os.path.basename(_p)[:3].upper()] = json.load(_f)

NOT_YET = 'check not built yet in this round; planned per DESIGN.md section 4'
NOT_APPLICABLE = {}
