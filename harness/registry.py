"""Per-property registration data; tools/mkmanifest.py turns it into MANIFEST.json."""

# id -> dict(category, text, note, technique, design_ref, engine)
CHECKS = {
    'C25': dict(
        category='translation_validation',
        text='The SQL ASTs the real translator and builders emit for s[i], s[i:j] are evaluated by TLC (SqlSem.tla) for every '
             'string length and bound value in the bounded domain, under each dialect\'s substr semantics, and compared with '
             'Python slicing defined in TLA+ (PySlice); the same queries are executed on a real SQLite database and compared '
             'with the table TLC exported. Exhaustive over the bounded domain; every dialect branch of the slice arithmetic is reached.',
        note='substr semantics of PostgreSQL/MySQL/Oracle are taken from their documentation (no servers in the sandbox); '
             'SQLite substr model and PySlice are validated against the real engine and CPython on every run.',
        technique='TLA+ semantics (SqlSem/PySlice) evaluated by TLC over real translator output (translation validation) + TLC-exported case table executed on SQLite',
        design_ref='DESIGN.md section 4, C25', engine='tlc-eval'),
}

NOT_YET = 'check not built yet in this round; planned per DESIGN.md section 4'

ALL_IDS = ['C%02d' % i for i in range(1, 37)]
