"""Replay of spec/PonySession.tla behaviours into the real ORM on SQLite (binding R).

The specification's state graph (TLC -dump) is walked *online*: at each node the driver picks an action,
executes the corresponding public API call on pony, and follows the out-edge whose outcome and returned value
match what pony did; no matching edge is a disagreement.  After every failing call, before every commit and at
random points the whole session is projected through the public API and compared with the spec's `cur`; after
every commit / end / rollback the database file is dumped through an independent sqlite3 connection and
compared with the spec's `db`.
"""
import os
import random
import sqlite3
import traceback

from . import tlc
from .tlc import MachineryError

from pony.orm import core
from pony.orm.core import (Database, PrimaryKey, Required, Optional, Set, db_session, select, commit, rollback,
                           flush, count, exists)

SHAPES = {
    # name: (Rel, BReq, Casc)
    'o2m_req_casc': ('o2m', True, True),
    'o2m_req_nocasc': ('o2m', True, False),
    'o2m_opt': ('o2m', False, False),
    'o2m_opt_casc': ('o2m', False, True),
    'o2o_req': ('o2o', True, False),
    'o2o_req_casc': ('o2o', True, True),
    'o2o_opt': ('o2o', False, False),
    'm2m': ('m2m', False, False),
    'mix_req_nocasc': ('mix', True, False),
    'mix_opt': ('mix', False, False),
    # one-to-one with cascade_delete declared on the column-holding side: deleting B deletes its A, deleting A only
    # clears B's reference (4th element: ChildCasc)
    'o2o_opt_childcasc': ('o2o', False, False, True),
    # the same specification constants as o2m_opt / mix_opt, but A has a composite primary key: two-column references,
    # link rows and identity-map keys (5th element). z is the same for every object, so that code comparing only one
    # of the two columns confuses the objects: 1 = PrimaryKey(z, id) (equal first column), 2 = PrimaryKey(id, z)
    'o2m_opt_cpk': ('o2m', False, False, False, 1),
    'mix_opt_cpk': ('mix', False, False, False, 1),
    'o2m_opt_cpk2': ('o2m', False, False, False, 2),
    'mix_opt_cpk2': ('mix', False, False, False, 2),
}


def shape_of(shape):
    t = SHAPES[shape]
    return (t + (False, False))[:4]


def composite_pk(shape):
    t = SHAPES[shape]
    return len(t) > 4 and t[4]

# which category of disagreement belongs to which property
CATEGORIES = {
    'commit': 'C09', 'read': 'C10', 'identity': 'C11', 'ends': 'C12', 'failure': 'C13', 'keys': 'C14',
    'delete': 'C15', 'flush': 'C16', 'strategy': 'C23',
}

STRATEGIES = ['default', 'lazy', 'prefetch', 'nplus1_0', 'nplus1_none']


def cfg_for(shape, max_level, aids=(1, 2), bids=(1, 2), vals=(1, 2), props=True, init='InitSeeded', reads=True):
    rel, breq, casc, childcasc = shape_of(shape)
    lines = ['INIT %s' % init, 'NEXT Next',
             'CONSTANTS',
             ' AIds = {%s}' % ','.join(map(str, aids)),
             ' BIds = {%s}' % ','.join(map(str, bids)),
             ' Vals = {%s}' % ','.join(map(str, vals)),
             ' Rel = "%s"' % rel,
             ' BReq = %s' % ('TRUE' if breq else 'FALSE'),
             ' Casc = %s' % ('TRUE' if casc else 'FALSE'),
             ' ChildCasc = %s' % ('TRUE' if childcasc else 'FALSE'),
             ' MaxLevel = %d' % max_level,
             ' WithReads = %s' % ('TRUE' if reads else 'FALSE'),
             'CONSTRAINT Bounded', 'CHECK_DEADLOCK FALSE']
    if props:
        lines += ['INVARIANT TypeOK', 'INVARIANT CommittedWellFormed', 'INVARIANT ViewWellFormed',
                  'INVARIANT PendingConsistent']
    return '\n'.join(lines) + '\n'


def cfg_props(shape, max_level, **kw):
    """Configuration for the exhaustive check of the spec's own properties: state invariants plus the action
    properties (CommitEqualsSession, FailureIsNoOp, FlushConflictAborts, ReadsArePure) as asserted step
    constraints, so that one breadth-first run both checks them and exports the graph."""
    return cfg_for(shape, max_level, **kw) + 'ACTION_CONSTRAINT StepProps\n'


def cfg_temporal(shape, max_level, **kw):
    """The same action properties as PROPERTY clauses (slower; used by the thorough tier as a cross-check)."""
    init = kw.get('init', 'InitSeeded')
    base = cfg_for(shape, max_level, **kw).replace('INIT %s\nNEXT Next' % init,
                                                   'SPECIFICATION %s' % ('SpecSeeded' if init == 'InitSeeded' else 'Spec'))
    return base + 'PROPERTY CommitEqualsSession\nPROPERTY FailureIsNoOp\nPROPERTY FlushConflictAborts\nPROPERTY ReadsArePure\n'


# -------------------------------------------------------------------------------------------------
class World:
    """A pony Database for one shape on a scratch SQLite file, plus the independent dump connection."""
    cpk = 0            # composite primary key of A: 0 none, 1 (z, id), 2 (id, z) (subclasses that build their own entities leave it off)
    Z = 7

    def __init__(self, shape, path, strategy='default'):
        self.shape = shape
        self.rel, self.breq, self.casc, childcasc = shape_of(shape)
        self.path = path
        self.strategy = strategy
        if os.path.exists(path):
            os.remove(path)
        lazy = strategy == 'lazy'
        db = self.db = Database()
        rel, breq, casc = self.rel, self.breq, self.casc
        setkw = {}
        if strategy == 'lazy':
            setkw['lazy'] = True
        elif strategy == 'nplus1_0':
            setkw['nplus1_threshold'] = 0
        elif strategy == 'nplus1_none':
            setkw['nplus1_threshold'] = None

        cpk = self.cpk = composite_pk(shape) or 0
        acol = dict(columns=['a_z', 'a_id']) if cpk == 1 else dict(columns=['a_id', 'a_z']) if cpk == 2 else dict(column='a_id')

        class A(db.Entity):
            _table_ = 'ta'
            if cpk == 1:
                z = Required(int)
                id = Required(int)
                PrimaryKey(z, id)
            elif cpk == 2:
                id = Required(int)
                z = Required(int)
                PrimaryKey(id, z)
            else:
                id = PrimaryKey(int)
            v = Optional(int, lazy=lazy)
            if rel == 'mix':
                ls = Set('B', reverse='as_', table='tl', column='b_id', **setkw)     # declared first: cleared first by delete
                bs = Set('B', reverse='a', cascade_delete=casc, **setkw) if casc != breq else Set('B', reverse='a', **setkw)
            elif rel == 'o2m':
                bs = Set('B', cascade_delete=casc, **setkw) if casc != breq else Set('B', **setkw)
            elif rel == 'o2o':
                b = Optional('B', cascade_delete=True) if casc else Optional('B')
            else:
                bs = Set('B', table='tl', column='b_id', **setkw)

        class B(db.Entity):
            _table_ = 'tb'
            id = PrimaryKey(int)
            u = Optional(int, unique=True, lazy=lazy)
            if rel == 'mix':
                a = Required(A, reverse='bs', lazy=lazy, **acol) if breq else Optional(A, reverse='bs', lazy=lazy, **acol)
                as_ = Set(A, reverse='ls', **dict(setkw, **acol))
            elif rel in ('o2m', 'o2o'):
                a = Required(A, lazy=lazy, **acol) if breq else Optional(A, cascade_delete=True, lazy=lazy, **acol) if childcasc \
                    else Optional(A, lazy=lazy, **acol)
            else:
                as_ = Set(A, **dict(setkw, **acol))

        self.A, self.B = A, B
        self.links = rel in ('m2m', 'mix')
        db.bind('sqlite', path, create_db=True)
        db.generate_mapping(create_tables=True)
        self.session = None
        self.registry = {}

    def close(self):
        try:
            self.db.disconnect()
        except Exception:
            pass
        if os.path.exists(self.path):
            os.remove(self.path)

    # -- independent access to the database file -------------------------------------------------
    def raw(self):
        con = sqlite3.connect(self.path, isolation_level=None)
        con.execute('PRAGMA foreign_keys = ON')
        return con

    def reset(self, state):
        """Make the database file contain exactly `state` (spec db value)."""
        self.db.disconnect()
        con = self.raw()
        con.execute('BEGIN')
        if self.links:
            con.execute('DELETE FROM tl')
        con.execute('DELETE FROM tb')
        con.execute('DELETE FROM ta')
        for k, row in fmap(state['A']).items():
            if row['ex']:
                if self.cpk:
                    con.execute('INSERT INTO ta (id, z, v) VALUES (?, ?, ?)', (k, self.Z, row['v'] or None))
                else:
                    con.execute('INSERT INTO ta (id, v) VALUES (?, ?)', (k, row['v'] or None))
        for k, row in fmap(state['B']).items():
            if row['ex']:
                if self.rel == 'm2m':
                    con.execute('INSERT INTO tb (id, u) VALUES (?, ?)', (k, row['u'] or None))
                else:
                    if self.cpk:
                        con.execute('INSERT INTO tb (id, u, a_id, a_z) VALUES (?, ?, ?, ?)',
                                    (k, row['u'] or None, row['a'] or None, self.Z if row['a'] else None))
                    else:
                        con.execute('INSERT INTO tb (id, u, a_id) VALUES (?, ?, ?)', (k, row['u'] or None, row['a'] or None))
        for a, b in state['L']:
            if self.cpk:
                con.execute('INSERT INTO tl (a_id, a_z, b_id) VALUES (?, ?, ?)', (a, self.Z, b))
            else:
                con.execute('INSERT INTO tl (a_id, b_id) VALUES (?, ?)', (a, b))
        con.execute('COMMIT')
        con.close()

    def dump(self):
        """Database content in the shape of the spec's db value, plus raw integrity findings."""
        con = self.raw()
        A = {k: {'ex': True, 'v': v or 0} for k, v in con.execute('SELECT id, v FROM ta')}
        arows = con.execute('SELECT id FROM ta').fetchall()
        if self.rel == 'm2m':
            B = {k: {'ex': True, 'u': u or 0, 'a': 0} for k, u in con.execute('SELECT id, u FROM tb')}
        else:
            B = {k: {'ex': True, 'u': u or 0, 'a': a or 0} for k, u, a in con.execute('SELECT id, u, a_id FROM tb')}
        L = set((a, b) for a, b in con.execute('SELECT a_id, b_id FROM tl')) if self.links else set()
        brows = con.execute('SELECT id, u FROM tb').fetchall()
        problems = []
        if len(arows) != len(A) or len(brows) != len(B):
            problems.append('duplicate primary key rows')
        us = [u for _, u in brows if u is not None]
        if len(us) != len(set(us)):
            problems.append('duplicate unique values %r' % (us,))
        fk = con.execute('PRAGMA foreign_key_check').fetchall()
        if fk:
            problems.append('foreign_key_check: %r' % (fk,))
        for k, row in B.items():
            if row['a'] and row['a'] not in A:
                problems.append('dangling reference tb[%d].a_id=%d' % (k, row['a']))
        if self.cpk:
            # both components of every stored key must belong together
            for k, z in con.execute('SELECT id, z FROM ta'):
                if z != self.Z:
                    problems.append('ta row with key (%r, %r)' % (k, z))
            if self.rel != 'm2m':
                for k, a, z in con.execute('SELECT id, a_id, a_z FROM tb'):
                    if (a is None) != (z is None) or (a is not None and z != self.Z):
                        problems.append('tb[%d] refers to (%r, %r)' % (k, a, z))
            if self.links:
                for a, z, b in con.execute('SELECT a_id, a_z, b_id FROM tl'):
                    if z != self.Z:
                        problems.append('link row (%r, %r) - %r' % (a, z, b))
        for a, b in L:
            if a not in A or b not in B:
                problems.append('dangling link (%d,%d)' % (a, b))
        con.close()
        return {'A': A, 'B': B, 'L': L}, problems


def fmap(f):
    """TLC prints a function with domain 1..n as a tuple."""
    if isinstance(f, tuple):
        return {i + 1: v for i, v in enumerate(f)}
    return f


def norm_plain(s):
    n = norm_state(s)
    return {'A': {str(k): r['v'] for k, r in n['A'].items()}, 'B': {str(k): [r['u'], r['a']] for k, r in n['B'].items()},
            'L': sorted(list(l) for l in n['L'])}


def norm_state(s):
    """Spec state value -> comparable plain form (only existing rows)."""
    A = {k: {'ex': True, 'v': r['v']} for k, r in fmap(s['A']).items() if r['ex']}
    B = {k: {'ex': True, 'u': r['u'], 'a': r['a']} for k, r in fmap(s['B']).items() if r['ex']}
    L = set(tuple(l) for l in s['L'])
    return {'A': A, 'B': B, 'L': L}


FAMILIES = {
    'CacheIndexError': 'CacheIndexError',
    'ConstraintError': 'ConstraintError',
    'ValueError': 'ValueError',
    'TransactionIntegrityError': 'Integrity', 'IntegrityError': 'Integrity', 'CommitException': 'Integrity',
    'UnresolvableCyclicDependency': 'Cyclic',
    'AssertionError': 'Internal',
}


def family(exc):
    for cls in type(exc).__mro__:
        if cls.__name__ in FAMILIES:
            return FAMILIES[cls.__name__]
    return 'Other:' + type(exc).__name__


class Mismatch(Exception):
    def __init__(self, category, what):
        Exception.__init__(self, what)
        self.category = category
        self.what = what


class SomeError(Exception):
    """The exception with which the driver leaves a db_session in EndExc."""


# -------------------------------------------------------------------------------------------------
class Adapter:
    """Maps abstract actions to real calls. `rng` picks among equivalent concrete forms of a call (C10, C23)."""

    def __init__(self, world, rng):
        self.w = world
        self.rng = rng
        self.identity_checks = 0

    # -- objects ---------------------------------------------------------------------------------
    def ent(self, e):
        return self.w.A if e == 'A' else self.w.B

    def pk(self, e, k):
        """The raw primary key of object k (A's key is a pair in the composite-key shapes)."""
        if e == 'A' and self.w.cpk:
            return (self.w.Z, k) if self.w.cpk == 1 else (k, self.w.Z)
        return k

    def obj(self, e, k):
        w = self.w
        o = w.registry.get((e, k))
        if o is not None:
            return o
        E = self.ent(e)
        form = self.rng.randrange(4)
        if form == 0:
            o = E[self.pk(e, k)]
        elif form == 1:
            o = E.get(id=k)
        elif form == 2:
            o = select(x for x in E if x.id == k).first()
        else:
            o = E.get_for_update(id=k) if self.rng.randrange(2) else select(x for x in E if x.id == k).for_update().first()
        if o is None:
            raise Mismatch('read', '%s[%d] exists in the session according to the specification but lookup form %d returned None' % (e, k, form))
        return self.reg(e, k, o)

    def reg(self, e, k, o):
        """Register / check identity (C11): one Python object per primary key per session."""
        prev = self.w.registry.get((e, k))
        self.identity_checks += 1
        if prev is None:
            self.w.registry[(e, k)] = o
        elif prev is not o:
            raise Mismatch('identity', '%s[%d] obtained twice in one session as two different Python objects' % (e, k))
        if o.id != k or type(o).__name__ != e:
            raise Mismatch('identity', 'asked for %s[%d], got %r' % (e, k, o))
        return o

    def obtain_references(self, view):
        """Obtain objects as bare references (identity-map seeds: primary key known, row not loaded), so that later
        calls work on objects whose attributes are NOT_LOADED: the items of a many-to-many collection come from the
        link table alone; the target of B.a comes from B's row. State-preserving reads (C10, C23)."""
        w = self.w
        self.touched = True
        n = 0
        by_links = w.links and (w.rel == 'm2m' or self.rng.random() < 0.6)    # 'mix': one way or the other
        if by_links:
            for a in sorted(view['liveA']):
                o = self.obj('A', a)
                coll = o.ls if w.rel == 'mix' else o.bs
                got = set()
                for x in coll:
                    got.add(self.reg('B', x.id, x).id)
                n += 1
                if got != set(fmap(view['links'])[a]):
                    raise Mismatch('read', 'before the first call: link collection of A[%d] is %r, the specification says %r'
                                   % (a, sorted(got), sorted(fmap(view['links'])[a])))
        else:
            for b in w.B.select()[:]:
                self.reg('B', b.id, b)
                ref = b.a
                n += 1
                want = fmap(view['ref'])[b.id]
                if (ref.id if ref is not None else 0) != want:
                    raise Mismatch('read', 'before the first call: B[%d].a is %r, the specification says %r' % (b.id, ref, want))
                if ref is not None:
                    self.reg('A', ref.id, ref)
        return n

    def reg_all(self, e, objs):
        return set(self.reg(e, o.id, o).id for o in objs)

    # -- the calls -------------------------------------------------------------------------------
    touched = False     # has the current session loaded or changed anything (bulk deletes bypass cached objects)

    def call(self, ev):
        """Execute the action described by the spec's ev record; return (outcome, ret_set)."""
        op = ev['op']
        if op in ('Begin', 'End', 'EndExc', 'Rollback'):
            self.touched = False
        elif op != 'BulkDelete':
            self.touched = True
        try:
            ret = getattr(self, 'do_' + op)(ev)
            return 'ok', (ret if ret is not None else set())
        except Mismatch:
            raise
        except (core.OrmError, core.DBException, ValueError, TypeError, AssertionError) as exc:
            fam = family(exc)
            if fam.startswith('Other:') and isinstance(exc, (ValueError, TypeError)):
                fam = 'ValueError'
            return fam, set()

    def do_Begin(self, ev):
        w = self.w
        s = db_session()
        s.__enter__()
        w.session = s
        w.registry = {}

    def do_End(self, ev):
        w = self.w
        s, w.session = w.session, None
        w.registry = {}
        s.__exit__(None, None, None)

    def do_EndExc(self, ev):
        w = self.w
        s, w.session = w.session, None
        w.registry = {}
        try:
            raise SomeError()
        except SomeError as e:
            import sys
            s.__exit__(*sys.exc_info())

    def do_Flush(self, ev):
        if self.rng.randrange(2):
            flush()
        else:
            self.w.db.flush()

    def do_Commit(self, ev):
        if self.rng.randrange(2):
            commit()
        else:
            self.w.db.commit()

    def do_Rollback(self, ev):
        self.w.registry = {}
        if self.rng.randrange(2):
            rollback()
        else:
            self.w.db.rollback()

    def do_Create(self, ev):
        w = self.w
        e, k = ev['e'], ev['k']
        if e == 'A':
            kw = {'id': k}
            if w.cpk:
                kw['z'] = w.Z
            if ev['x'] or self.rng.randrange(2):
                kw['v'] = ev['x'] or None
            o = w.A(**kw)
        else:
            kw = {'id': k}
            if ev['x'] or self.rng.randrange(2):
                kw['u'] = ev['x'] or None
            z = ev['y']
            if w.rel != 'm2m':
                if z:
                    parent = self.obj('A', z)
                    if w.rel == 'o2m' and self.rng.randrange(3) == 0:
                        o = parent.bs.create(**kw)
                        self.reg(e, k, o)
                        return
                    kw['a'] = parent if self.rng.randrange(2) else self.pk('A', z)
                elif self.rng.randrange(2):
                    kw['a'] = None
            o = w.B(**kw)
        self.reg(e, k, o)

    def do_SetV(self, ev):
        o = self.obj('A', ev['k'])
        val = ev['x'] or None
        if self.rng.randrange(2):
            o.v = val
        else:
            o.set(v=val)

    def do_SetU(self, ev):
        o = self.obj('B', ev['k'])
        val = ev['x'] or None
        if self.rng.randrange(2):
            o.u = val
        else:
            o.set(u=val)

    def do_SetRef(self, ev):
        o = self.obj('B', ev['k'])
        z = ev['x']
        val = self.obj('A', z) if z else None
        if ev['y'] == 2:          # one-to-one, from A's end
            if val is not None:
                if self.rng.randrange(2):
                    val.b = o
                else:
                    val.set(b=o)
            else:
                old = o.a
                if old is None:
                    raise Mismatch('ends', 'B[%d].a is None although the specification says it refers to an object' % ev['k'])
                self.reg('A', old.id, old)
                old.b = None
            return
        form = self.rng.randrange(3)
        if form == 0 or val is None:
            o.a = val
        elif form == 1:
            o.set(a=val)
        else:
            o.a = self.pk('A', z)          # raw primary key value
    def do_SetMany(self, ev):
        o = self.obj('B', ev['k'])
        z = ev['y']
        val = self.obj('A', z) if z else None
        o.set(u=ev['x'] or None, a=val)

    def do_CollAdd(self, ev):
        a = self.obj('A', ev['k'])
        b = self.obj('B', ev['x'])
        form = self.rng.randrange(3)
        if ev['y'] == 2:         # many-to-many, changed from B's end
            if form == 0:
                b.as_.add(a)
            elif form == 1:
                b.as_ += a
            else:
                b.as_.add([a])
        elif form == 0:
            a.bs.add(b)
        elif form == 1:
            a.bs += b
        else:
            a.bs.add([b])

    def do_CollRemove(self, ev):
        a = self.obj('A', ev['k'])
        b = self.obj('B', ev['x'])
        form = self.rng.randrange(3)
        if ev['y'] == 2:         # many-to-many, changed from B's end
            if form == 0:
                b.as_.remove(a)
            elif form == 1:
                b.as_ -= a
            else:
                b.as_.remove([a])
        elif form == 0:
            a.bs.remove(b)
        elif form == 1:
            a.bs -= b
        else:
            a.bs.remove([b])

    def do_LAdd(self, ev):
        a = self.obj('A', ev['k'])
        b = self.obj('B', ev['x'])
        if ev['y'] == 1:
            a.ls.add(b)
        else:
            b.as_.add(a)

    def do_LRemove(self, ev):
        a = self.obj('A', ev['k'])
        b = self.obj('B', ev['x'])
        if ev['y'] == 1:
            a.ls.remove(b)
        else:
            b.as_.remove(a)

    def do_LColl(self, ev):
        a = self.obj('A', ev['k'])
        items = list(a.ls) if self.rng.randrange(2) else a.ls.select()[:]
        return self.reg_all('B', items)

    def do_CollClear(self, ev):
        a = self.obj('A', ev['k'])
        if self.rng.randrange(2):
            a.bs.clear()
        else:
            a.bs = []

    def do_CollSet(self, ev):
        a = self.obj('A', ev['k'])
        items = [self.obj('B', b) for b in (1, 2) if ev['x'] & b]
        form = self.rng.randrange(3)
        if form == 0:
            a.bs = items
        elif form == 1:
            a.set(bs=set(items))
        else:
            a.bs = tuple(reversed(items))

    def do_CollSetB(self, ev):
        b = self.obj('B', ev['k'])
        items = [self.obj('A', a) for a in (1, 2) if ev['x'] & a]
        form = self.rng.randrange(3)
        if not items and form == 0:
            b.as_.clear()
        elif form == 1:
            b.set(as_=items)
        else:
            b.as_ = items

    def do_Delete(self, ev):
        e, k = ev['e'], ev['k']
        form = self.rng.randrange(4)
        if form == 0 and (e, k) in self.w.registry:
            # delete through a query (not bulk: the objects are loaded and deleted one by one)
            E = self.ent(e)
            n = select(x for x in E if x.id == k).delete()
            if n != 1:
                raise Mismatch('delete', 'select(x for x in %s if x.id == %d).delete() reports %r deleted objects' % (e, k, n))
            return
        o = self.obj(e, k)
        o.delete()

    def do_BulkDelete(self, ev):
        A = self.w.A
        a = ev['k']
        if self.rng.randrange(2):
            select(x for x in A if x.id == a).delete(bulk=True)
        else:
            A.select(lambda x: x.id == a).delete(bulk=True)

    # reads
    def do_GetV(self, ev):
        return {self.obj('A', ev['k']).v or 0}

    def do_GetU(self, ev):
        return {self.obj('B', ev['k']).u or 0}

    def do_GetRef(self, ev):
        b = self.obj('B', ev['k'])
        a = b.a
        if a is None:
            return {0}
        self.reg('A', a.id, a)
        return {a.id}

    def do_Coll(self, ev):
        w = self.w
        a = self.obj('A', ev['k'])
        if w.rel == 'o2o':
            b = a.b
            if b is None:
                return set()
            self.reg('B', b.id, b)
            return {b.id}
        k = ev['k']
        # observations that may be answered without loading the collection (count / emptiness / membership shortcuts)
        pre = {}
        pick = self.rng.randrange(4)
        if pick == 0:
            pre['count'] = a.bs.count()
        elif pick == 1:
            pre['empty'] = a.bs.is_empty()
        elif pick == 2:
            for (e2, k2), o2 in list(w.registry.items()):
                if e2 == 'B':
                    pre.setdefault('in', {})[k2] = o2 in a.bs
        form = self.rng.randrange(5)
        if form == 0:
            items = list(a.bs)
        elif form == 1:
            items = a.bs.select()[:]
        elif form == 2:
            items = list(a.bs.copy())
        elif form == 3:
            items = self.coll_query(a)
        else:
            items = a.bs.order_by(lambda b: b.id)[:]
        ids = self.reg_all('B', items)
        if 'count' in pre and pre['count'] != len(ids):
            raise Mismatch('read', 'A[%d].bs.count() said %d before the collection was read, iteration gives %r' % (k, pre['count'], sorted(ids)))
        if 'empty' in pre and pre['empty'] != (not ids):
            raise Mismatch('read', 'A[%d].bs.is_empty() said %r before the collection was read, iteration gives %r' % (k, pre['empty'], sorted(ids)))
        for k2, was_in in pre.get('in', {}).items():
            if was_in != (k2 in ids):
                raise Mismatch('read', 'B[%d] in A[%d].bs said %r, iteration gives %r' % (k2, k, was_in, sorted(ids)))
        # every way of asking for the size, and the same question asked as a database query, must agree (C10)
        sizes = {'len': len(a.bs), 'count': a.bs.count(), 'is_empty': 0 if a.bs.is_empty() else len(ids)}
        for how, size in sizes.items():
            if size != len(ids):
                raise Mismatch('read', 'A[%d].bs iterates as %r but %s reports %d' % (k, sorted(ids), how, size))
        again = set(o.id for o in list(a.bs))
        if again != ids:
            raise Mismatch('read', 'A[%d].bs read through form %d gives %r, plain iteration gives %r' % (k, form, sorted(ids), sorted(again)))
        q = self.reg_all('B', self.coll_query(a))
        if q != ids:
            raise Mismatch('read', 'A[%d].bs is %r in the session but the equivalent query returns %r' % (k, sorted(ids), sorted(q)))
        return ids

    def coll_query(self, a):
        w = self.w
        if w.rel == 'm2m':
            return select(b for b in w.B if a in b.as_)[:]
        return select(b for b in w.B if b.a == a)[:]

    def do_CollB(self, ev):
        b = self.obj('B', ev['k'])
        items = list(b.as_) if self.rng.randrange(2) else b.as_.select()[:]
        return self.reg_all('A', items)

    def do_Find(self, ev):
        e, k = ev['e'], ev['k']
        E = self.ent(e)
        form = self.rng.randrange(4)
        if form == 0:
            o = E.get(id=k)
        elif form == 1:
            try:
                o = E[self.pk(e, k)]
            except core.ObjectNotFound:
                o = None
        elif form == 2:
            o = select(x for x in E if x.id == k).first()
        else:
            found = E.exists(id=k) if self.rng.randrange(2) else exists(x for x in E if x.id == k)
            return {1 if found else 0}
        if o is None:
            return {0}
        self.reg(e, k, o)
        return {1}

    def do_FindU(self, ev):
        y = ev['x']
        B = self.w.B
        form = self.rng.randrange(3)
        if form == 0:
            o = B.get(u=y)
            items = [] if o is None else [o]
        elif form == 1:
            items = B.select(u=y)[:]
        else:
            items = select(b for b in B if b.u == y)[:]
        return self.reg_all('B', items)

    def do_SelAll(self, ev):
        e = ev['e']
        E = self.ent(e)
        form = self.rng.randrange(4)
        if form == 0:
            items = E.select()[:]
        elif form == 1:
            items = select(x for x in E)[:]
        elif form == 2:
            items = list(E.select(lambda x: True))
        else:
            items = E.select().order_by(E.id)[:]
        if self.w.strategy == 'prefetch':
            items = self.prefetched(e)
        ids = self.reg_all(e, items)
        ids2 = self.reg_all(e, select(x for x in E)[:])       # the same cacheable query every time (result cache)
        if ids2 != ids:
            raise Mismatch('read', 'select over %s: form %d returns %r, select(x for x in %s) returns %r' % (e, form, sorted(ids), e, sorted(ids2)))
        if self.rng.randrange(2):
            n = count(x for x in E) if self.rng.randrange(2) else E.select().count()
            if n != len(ids):
                raise Mismatch('read', 'select over %s returns %d objects but count() says %d' % (e, len(ids), n))
        return ids

    def prefetched(self, e):
        """select all objects of e with prefetch() of its relationship (strategy 'prefetch')."""
        w = self.w
        if e == 'A':
            rattr = w.A.b if w.rel == 'o2o' else w.A.bs
            return w.A.select().prefetch(rattr)[:]
        rattr = w.B.as_ if w.rel == 'm2m' else w.B.a
        return w.B.select().prefetch(rattr)[:]

    # -- whole-session projection through the public API -------------------------------------------
    def project(self, cur, why):
        """Compare everything the program can observe with the spec's `cur` (C10 C11 C12 C13)."""
        self.touched = True
        try:
            return self._project(cur, why)
        finally:
            if self.after_project:
                self.after_project()

    after_project = None

    def _project(self, cur, why):
        w = self.w
        want = norm_state(cur)
        cat = 'failure' if why == 'after-failure' else 'read'
        if w.strategy == 'prefetch':
            aobjs = {o.id: o for o in self.prefetched('A')}
            bobjs = {o.id: o for o in self.prefetched('B')}
        else:
            aobjs = {o.id: o for o in w.A.select()[:]}
            bobjs = {o.id: o for o in w.B.select()[:]}
        for k, o in aobjs.items():
            self.reg('A', k, o)
        for k, o in bobjs.items():
            self.reg('B', k, o)
        if set(aobjs) != set(want['A']) or set(bobjs) != set(want['B']):
            raise Mismatch(cat, '%s: objects in session A=%r B=%r, specification A=%r B=%r' % (
                why, sorted(aobjs), sorted(bobjs), sorted(want['A']), sorted(want['B'])))
        for k, o in aobjs.items():
            if (o.v or 0) != want['A'][k]['v']:
                raise Mismatch(cat, '%s: A[%d].v is %r, specification %r' % (why, k, o.v, want['A'][k]['v']))
        for k, o in bobjs.items():
            if (o.u or 0) != want['B'][k]['u']:
                raise Mismatch(cat, '%s: B[%d].u is %r, specification %r' % (why, k, o.u, want['B'][k]['u']))
        # relationship, both ends (C12)
        if w.rel == 'm2m':
            fwd = set((a, b.id) for a, o in aobjs.items() for b in o.bs)
            bwd = set((a.id, b) for b, o in bobjs.items() for a in o.as_)
            if fwd != bwd:
                raise Mismatch('ends', '%s: A.bs says %r, B.as_ says %r' % (why, sorted(fwd), sorted(bwd)))
            if fwd != want['L']:
                raise Mismatch(cat, '%s: links in session %r, specification %r' % (why, sorted(fwd), sorted(want['L'])))
        else:
            refs = {}
            for k, o in bobjs.items():
                a = o.a
                refs[k] = a.id if a is not None else 0
                if a is not None and aobjs.get(a.id) is not a:
                    raise Mismatch('identity', '%s: B[%d].a is not the session\'s object A[%d]' % (why, k, a.id))
            if w.rel in ('o2m', 'mix'):
                fwd = set((a, b.id) for a, o in aobjs.items() for b in o.bs)
            else:
                fwd = set((a, o.b.id) for a, o in aobjs.items() if o.b is not None)
            bwd = set((a, b) for b, a in refs.items() if a)
            if fwd != bwd:
                raise Mismatch('ends', '%s: A side says %r, B.a says %r' % (why, sorted(fwd), sorted(bwd)))
            for k in bobjs:
                if refs[k] != want['B'][k]['a']:
                    raise Mismatch(cat, '%s: B[%d].a is %r, specification %r' % (why, k, refs[k], want['B'][k]['a']))
            if w.rel == 'mix':
                lf = set((a, b.id) for a, o in aobjs.items() for b in o.ls)
                lb = set((a.id, b) for b, o in bobjs.items() for a in o.as_)
                if lf != lb:
                    raise Mismatch('ends', '%s: A.ls says %r, B.as_ says %r' % (why, sorted(lf), sorted(lb)))
                if lf != want['L']:
                    raise Mismatch(cat, '%s: links in session %r, specification %r' % (why, sorted(lf), sorted(want['L'])))
        # key lookups (C11: each unique value maps to the object that holds it)
        for k, o in bobjs.items():
            if o.u is not None and w.B.get(u=o.u) is not o:
                raise Mismatch('identity', '%s: B.get(u=%r) does not return the object holding that value' % (why, o.u))


# -------------------------------------------------------------------------------------------------
class Graph:
    def __init__(self, nodes, edges, inits):
        self.nodes = nodes
        self.inits = inits
        self.succ = {}
        for s, d in edges:
            self.succ.setdefault(s, []).append(d)
        self.visited = set()
        self.nedges = len(set(edges))

    @staticmethod
    def key(ev):
        return (ev['op'], ev['e'], ev['k'], ev['x'], ev['y'])

    def actions(self, u):
        acts = {}
        for v in self.succ.get(u, ()):
            acts.setdefault(self.key(self.nodes[v]['ev']), []).append(v)
        return acts


READ_OPS = ('GetV', 'GetU', 'GetRef', 'Coll', 'CollB', 'LColl', 'Find', 'FindU', 'SelAll')
END_OPS = ('Commit', 'End', 'EndExc', 'Rollback')
CONTROL_OPS = ('Begin', 'Flush', 'Commit', 'Rollback', 'End', 'EndExc')


def mismatch_category(ev_key, outs_expected, out, ret):
    """Which property a disagreement on the outcome of a call belongs to."""
    op = ev_key[0]
    if op in READ_OPS:
        return 'read'
    if op in ('Flush', 'Commit', 'End'):
        return 'keys' if ('Integrity' in outs_expected or out == 'Integrity') else 'flush'
    if 'CacheIndexError' in outs_expected or out == 'CacheIndexError':
        return 'keys'
    if op in ('Delete', 'CollRemove', 'CollClear', 'CollSet', 'BulkDelete'):
        return 'delete'
    if out == 'Integrity':
        return 'flush'
    return 'failure'


def doomed_or_transient(state):
    """Python transcription is avoided: the node carries the flags (exported by the spec as part of ev? no) ->
    computed from the graph: a node is 'quiet' if every read out-edge has outcome ok."""
    return False


class Driver:
    def __init__(self, ctx, shape, graph, strategy='default', seed=0, world=None):
        self.no_bulk = False     # C33: a bulk delete runs no hooks by design, its statement is outside the hook machine
        self.ctx = ctx
        self.shape = shape
        self.g = graph
        self.rng = random.Random(seed)
        self.world = world or World(shape, ctx.scratch.path('db', '%s-%s.sqlite' % (shape, strategy)), strategy)
        self.seen_triples = set()
        self.seen_triples_list = ()
        self.hist = []
        self.after_call = None       # callback(kind) after every API call / projection (used by the hook traces, C33)
        self.on_behaviour = None     # callback('begin' | 'end', trace)
        self.stats = {'behaviours': 0, 'steps': 0, 'commits_compared': 0, 'projections': 0, 'failures_checked': 0,
                      'reads_compared': 0, 'identity_checks': 0, 'flush_conflicts': 0, 'deletes': 0, 'nontrivial': {}}
        self.found = []      # (category, what, trace)

    def close(self):
        self.world.close()

    # -- belief sets: the specification states consistent with everything observed so far -------------------
    def closure(self, nodes):
        """Closure under the unobservable Tau step (implicit flush)."""
        g = self.g
        seen = set(nodes)
        work = list(nodes)
        while work:
            u = work.pop()
            for v in g.succ.get(u, ()):
                if v not in seen and g.nodes[v]['ev']['op'] == 'tau':
                    seen.add(v)
                    work.append(v)
        return seen

    def actions(self, belief):
        """action key -> {node: [successors]} for the observable actions enabled in EVERY state of the belief."""
        g = self.g
        per = []
        for u in belief:
            acts = {}
            for v in g.succ.get(u, ()):
                ev = g.nodes[v]['ev']
                if ev['op'] == 'tau':
                    continue
                acts.setdefault(g.key(ev), []).append(v)
            per.append((u, acts))
        common = None
        for u, acts in per:
            common = set(acts) if common is None else common & set(acts)
        return {k: {u: acts[k] for u, acts in per} for k in (common or ())}

    def can_project(self, belief, acts=None):
        """Projection and free reads run queries (hence an implicit flush): only where, in every state of the belief,
        the session is open and no read can fail (view.quiet: not Doomed, not Transient)."""
        return all(self.g.nodes[u]['view']['quiet'] for u in belief)

    def choose(self, acts, focus, last_kind, rng):
        """Weighted choice of the next action: prefer transitions not replayed yet, actions on the behaviour's
        focus objects, and a read right after a modification."""
        g = self.g
        fa, fb = focus
        keys = sorted(acts)
        weights = []
        for k in keys:
            op, e, kk, x, y = k
            w = 1.0
            if op in CONTROL_OPS:
                w = 2.0
            else:
                ids_a, ids_b = [], []
                if op == 'Create':
                    (ids_a if e == 'A' else ids_b).append(kk)
                    if e == 'B' and y:
                        ids_a.append(y)
                elif op in ('SetV', 'GetV', 'Coll', 'LColl', 'CollClear', 'CollSet'):
                    ids_a.append(kk)
                elif op in ('SetU', 'GetU', 'GetRef', 'CollB', 'CollSetB'):
                    ids_b.append(kk)
                elif op == 'SetRef':
                    ids_b.append(kk)
                    if x:
                        ids_a.append(x)
                elif op == 'SetMany':
                    ids_b.append(kk)
                    if y:
                        ids_a.append(y)
                elif op in ('CollAdd', 'CollRemove', 'LAdd', 'LRemove'):
                    ids_a.append(kk)
                    ids_b.append(x)
                elif op in ('Delete', 'Find', 'BulkDelete'):
                    (ids_a if e == 'A' else ids_b).append(kk)
                if all(i == fa for i in ids_a) and all(i == fb for i in ids_b):
                    w *= 6.0
                if last_kind == 'write' and op in READ_OPS:
                    w *= 2.5
            if any((u, v) not in g.visited for u, vs in acts[k].items() for v in vs):
                w *= 2.0
            # novelty of the sequence of call *kinds* (name + entity): triples not replayed yet are preferred, so
            # that rare orders (modify b, then create a, then point b to a, then commit) get their turn
            t = (op, e)
            if self.hist[-2:] + [t] not in self.seen_triples_list and tuple(self.hist[-2:] + [t]) not in self.seen_triples:
                w *= 4.0
            weights.append(w)
        key = rng.choices(keys, weights=weights, k=1)[0]
        t = (key[0], key[1])
        self.seen_triples.add(tuple(self.hist[-2:] + [t]))
        self.hist.append(t)
        return key

    def free_reads(self, ad, belief, key, when):
        """Ask the reads that concern the objects of call `key` without leaving the specification state: the
        expected answers are the state's `view` (a TLA+ function of cur). Only where reads cannot fail."""
        view = self.agreed(belief, 'view')
        if view is None or not self.can_project(belief):
            return 0
        if key[0] == 'BulkDelete' and when == 'before':
            return 0        # a bulk delete is only modelled in a session that holds no objects yet
        ad.touched = True
        w = self.world
        op, e, kk, x, y = key
        ids_a, ids_b = set(), set()
        if op == 'Create':
            (ids_a if e == 'A' else ids_b).add(kk)
            if e == 'B' and y:
                ids_a.add(y)
        elif op in ('SetV', 'Coll', 'LColl', 'CollClear', 'CollSet', 'GetV'):
            ids_a.add(kk)
        elif op in ('SetU', 'GetU', 'GetRef', 'CollB', 'CollSetB'):
            ids_b.add(kk)
        elif op == 'SetRef':
            ids_b.add(kk)
            ids_a.add(x)
        elif op == 'SetMany':
            ids_b.add(kk)
            ids_a.add(y)
        elif op in ('CollAdd', 'CollRemove', 'LAdd', 'LRemove'):
            ids_a.add(kk)
            ids_b.add(x)
        elif op in ('Delete', 'BulkDelete'):
            (ids_a if e == 'A' else ids_b).add(kk)
        liveA, liveB = set(view['liveA']), set(view['liveB'])
        if op in ('Delete', 'BulkDelete', 'SetRef', 'SetMany', 'CollClear', 'CollSet', 'CollSetB', 'CollRemove', 'Create'):
            # relatives may be affected (cascade, unlinking, one-to-one rivals)
            ids_a |= liveA
            ids_b |= liveB
        n = 0

        def expect(what, got, want):
            if set(got) != set(want):
                raise Mismatch('read', '%s %s%r: %s is %r, the specification says %r' % (when, op, key[1:], what, sorted(got), sorted(want)))
        for a in sorted(ids_a & liveA):
            evr = {'e': 'A', 'k': a, 'x': 0, 'y': 0}
            expect('A[%d].bs' % a if w.rel != 'o2o' else 'A[%d].b' % a, ad.do_Coll(evr), fmap(view['kids'])[a])
            expect('A[%d].v' % a, ad.do_GetV(evr), {fmap(view['v'])[a]})
            if w.rel == 'mix':
                expect('A[%d].ls' % a, ad.do_LColl(evr), fmap(view['links'])[a])
            n += 2
        for b in sorted(ids_b & liveB):
            evr = {'e': 'B', 'k': b, 'x': 0, 'y': 0}
            expect('B[%d].u' % b, ad.do_GetU(evr), {fmap(view['u'])[b]})
            if w.rel != 'm2m':
                expect('B[%d].a' % b, ad.do_GetRef(evr), {fmap(view['ref'])[b]})
            if w.links:
                expect('B[%d].as_' % b, ad.do_CollB(evr), fmap(view['linksB'])[b])
            n += 2
        for a in sorted(ids_a - liveA):
            expect('A.get(id=%d)' % a, ad.do_Find({'e': 'A', 'k': a}), {0})
        for b in sorted(ids_b - liveB):
            expect('B.get(id=%d)' % b, ad.do_Find({'e': 'B', 'k': b}), {0})
        byu = view['byU']
        byu = fmap(byu) if isinstance(byu, tuple) else byu
        for yv, holders in byu.items():
            expect('B.get(u=%d)' % yv, ad.do_FindU({'x': yv}), holders)
        if self.after_call:
            self.after_call('FreeReads', 'ok')
        return n

    def agreed(self, belief, var):
        vals = [self.g.nodes[u][var] for u in belief]
        return vals[0] if all(v == vals[0] for v in vals[1:]) else None

    def run_behaviour(self, max_steps, plan=None, init=None, probe=None):
        """One behaviour. plan: a fixed list of action keys to execute from initial state `init` (systematic
        enumeration); otherwise a weighted random walk."""
        g, w, rng = self.g, self.world, self.rng
        self.last_actions = None
        # probe: 'all' - free reads / projections around every modification (each of them flushes pending changes);
        #        'end' - none until the end of the behaviour, so that unflushed changes of several calls accumulate
        #        'seed'  - like 'end', but before the first call objects are obtained as bare references (rows not loaded):
        #                  B objects from the link table of a many-to-many collection, A objects as B rows' `a` attribute
        #        'prime' - like 'end', but every collection, count and attribute is read once before the first call,
        #                  so that the calls work on loaded collections and known counts
        if probe is None:
            probe = rng.choice(('all', 'end', 'prime', 'seed'))
        u0 = init if init is not None else rng.choice(g.inits)
        w.reset(g.nodes[u0]['db'])
        ad = Adapter(w, rng)
        trace = [{'init': norm_plain(g.nodes[u0]['db']), 'open': g.nodes[u0]['sess'] == 'open', 'probe': probe}]
        if trace[0]['open']:
            ad.do_Begin({})
        if self.on_behaviour:
            self.on_behaviour('begin', trace)
        self.stats['behaviours'] += 1
        kinds = set()
        belief = self.closure({u0})
        # each behaviour concentrates on one A id and one B id, so that read - modify - read again sequences on
        # the same objects (the place where cache shortcuts go wrong) are frequent instead of one in 10^4
        focus = (rng.choice((1, 2)), rng.choice((1, 2)))
        last_kind = None
        last_write = None
        primed = False
        self.hist = []
        try:
            for step in range(max_steps if plan is None else len(plan) + 1):
                acts = self.actions(belief)
                if plan is not None and step == len(plan):
                    self.last_actions = sorted(k for k in acts if k[0] not in READ_OPS)
                    break
                if not acts:
                    break
                if ad.touched or probe in ('prime', 'seed') or self.no_bulk:
                    acts = {k: v for k, v in acts.items() if k[0] != 'BulkDelete'}
                    if not acts:
                        break
                if plan is not None:
                    key = tuple(plan[step])
                    if key not in acts:
                        break       # pony took another allowed branch earlier: this plan does not apply
                else:
                    key = self.choose(acts, focus, last_kind, rng)
                last_kind = 'read' if key[0] in READ_OPS else 'control' if key[0] in CONTROL_OPS else 'write'
                per = acts[key]
                cands = [(u, v) for u, vs in per.items() for v in vs]
                ev0 = g.nodes[cands[0][1]]['ev']
                cur_before = self.agreed(belief, 'cur')
                if key[0] in ('Commit', 'End') and cur_before is not None and self.can_project(belief, acts) and rng.random() < 0.5:
                    ad.project(cur_before, 'before-commit')
                    self.stats['projections'] += 1
                pending = any(g.nodes[u]['pendNew'] or g.nodes[u]['pendDel'] or g.nodes[u]['cur'] != g.nodes[u]['tx'] for u in belief)
                is_write = key[0] not in READ_OPS and key[0] not in CONTROL_OPS
                if probe == 'prime' and not primed and w.session is not None and key[0] != 'Begin':
                    primed = True
                    self.stats['free_reads'] = self.stats.get('free_reads', 0) + \
                        self.free_reads(ad, belief, ('Delete', 'A', 0, 0, 0), 'before the first call')
                if probe == 'seed' and not primed and w.session is not None and key[0] != 'Begin':
                    primed = True
                    view0 = self.agreed(belief, 'view')
                    if view0 is not None and self.can_project(belief):
                        self.stats['free_reads'] = self.stats.get('free_reads', 0) + ad.obtain_references(view0)
                if is_write and probe == 'all' and rng.random() < 0.6:
                    # prime the caches (counts, loaded collections, query results) before the modification
                    self.stats['free_reads'] = self.stats.get('free_reads', 0) + self.free_reads(ad, belief, key, 'before')
                out, ret = ad.call(ev0)
                if self.after_call:
                    self.after_call(key[0], out)
                self.stats['steps'] += 1
                trace.append({'op': key[0], 'e': key[1], 'k': key[2], 'x': key[3], 'y': key[4], 'out': out, 'ret': sorted(ret)})
                match = [(u, v) for u, v in cands if g.nodes[v]['ev']['out'] == out and set(g.nodes[v]['ev']['ret']) == set(ret)]
                if not match:
                    outs = sorted(set(g.nodes[v]['ev']['out'] for _, v in cands))
                    exp = sorted(set((g.nodes[v]['ev']['out'], tuple(sorted(g.nodes[v]['ev']['ret']))) for _, v in cands))
                    cat = mismatch_category(key, outs, out, ret)
                    raise Mismatch(cat, '%s%r: pony -> %s %r; the specification allows %r' % (key[0], key[1:], out, sorted(ret), exp))
                for e in match:
                    g.visited.add(e)
                belief = self.closure({v for _, v in match})
                node = g.nodes[match[0][1]]
                cur = self.agreed(belief, 'cur')
                dbv = self.agreed(belief, 'db')
                # objects that no longer exist in the session's view leave the registry (a later object with the
                # same primary key is a new object)
                if node['sess'] == 'open' and cur is not None:
                    curA, curB = fmap(cur['A']), fmap(cur['B'])
                    for (e, k) in list(w.registry):
                        if not (curA if e == 'A' else curB)[k]['ex']:
                            del w.registry[(e, k)]
                elif node['sess'] != 'open':
                    w.registry = {}
                if key[0] in READ_OPS:
                    self.stats['reads_compared'] += 1
                    if pending:
                        kinds.add('read-after-unflushed-write')
                last_write = key if is_write and out == 'ok' else last_write
                if is_write and out == 'ok' and probe == 'all':
                    n = self.free_reads(ad, belief, key, 'after')
                    self.stats['free_reads'] = self.stats.get('free_reads', 0) + n
                    if n:
                        kinds.add('read-after-unflushed-write')
                if out not in ('ok', 'Integrity'):
                    self.stats['failures_checked'] += 1
                    kinds.add('failing-call')
                    if cur is not None and (probe == 'all' or rng.random() < 0.3) and self.can_project(belief):
                        ad.project(cur, 'after-failure')
                        self.stats['projections'] += 1
                elif out == 'Integrity':
                    self.stats['flush_conflicts'] += 1
                    kinds.add('flush-conflict')
                if key[0] == 'Delete' or key[0] in ('CollRemove', 'CollClear', 'CollSet'):
                    self.stats['deletes'] += 1
                    kinds.add('delete')
                if key[0] in ('Commit', 'End', 'EndExc', 'Rollback') or out == 'Integrity':
                    got, problems = w.dump()
                    self.stats['commits_compared'] += 1
                    if problems:
                        raise Mismatch('keys' if 'duplicate' in problems[0] else 'delete',
                                       'database after %s: %s' % (key[0], '; '.join(problems)))
                    if dbv is not None and got != norm_state(dbv):
                        cat = 'keys' if out == 'Integrity' else 'commit'
                        raise Mismatch(cat, 'database after %s(%s) is %r, specification says %r' % (key[0], out, got, norm_state(dbv)))
                    if key[0] in ('Commit', 'End') and out == 'ok':
                        kinds.add('commit')
                elif cur is not None and probe == 'all' and rng.random() < 0.15 and self.can_project(belief):
                    ad.project(cur, 'random-point')
                    self.stats['projections'] += 1
            if probe in ('end', 'prime', 'seed') and last_write is not None and w.session is not None:
                # everything the calls of this behaviour left pending is still unflushed here
                n = self.free_reads(ad, belief, ('Delete', 'A', 0, 0, 0), 'at the end')     # 'Delete' widens to all live objects
                self.stats['free_reads'] = self.stats.get('free_reads', 0) + n
                if n:
                    kinds.add('read-after-unflushed-write')
            self.final_check(ad, belief, trace, kinds)
        except Mismatch as m:
            self.found.append((m.category, m.what, list(trace)))
        except MachineryError:
            raise
        except Exception as exc:
            tb = traceback.format_exc()
            self.found.append(('crash', 'unexpected %s in pony or the adapter: %s\n%s' % (type(exc).__name__, exc, tb[-1500:]), list(trace)))
        finally:
            self.stats['identity_checks'] += ad.identity_checks
            self.cleanup()
            if self.on_behaviour:
                self.on_behaviour('end', trace)
        for k in kinds:
            self.stats['nontrivial'][k] = self.stats['nontrivial'].get(k, 0) + 1
        return trace

    def run_systematic(self, depth, deadline, init):
        """Every sequence of at most `depth` modifying/control calls from initial state `init` (breadth first, each
        replayed from a fresh database with all checks, free reads after each modification and the final exit
        check). Returns (sequences replayed, exhausted?)."""
        import time as _time
        levels = {0: [()]}
        n = 0
        for d in range(depth + 1):
            plans = levels.get(d, [])
            self.rng.shuffle(plans)          # a partial run (time budget) is a uniform sample of the level
            nxt = levels.setdefault(d + 1, [])
            for plan in plans:
                if _time.process_time() > deadline:     # CPU time of this process: the share explored does not shrink under load
                    return n, False
                self._systematic_one(plan, init, depth, nxt)
                n += 1
        return n, True

    def _systematic_one(self, plan, init, depth, nxt):
        if True:
            if True:
                if len(plan) <= 2:
                    for mode in ('end', 'prime', 'seed', 'all'):
                        self.run_behaviour(0, plan=list(plan), init=init, probe=mode)
                else:
                    self.run_behaviour(0, plan=list(plan), init=init, probe=('end', 'prime', 'seed')[hash(plan) % 3])
                if len(plan) < depth and self.last_actions:
                    for k in self.last_actions:
                        nxt.append(plan + (k,))

    def final_check(self, ad, belief, trace, kinds):
        """Where the exported graph ends, the outcome of leaving the session is still determined by the last state:
        in a quiet state (open, not Doomed, not Transient in every state of the belief) a normal exit must commit
        exactly `cur`; an exit by exception must leave `db`. One more level of C09/C16 checking for free."""
        w = self.world
        if w.session is None:
            return
        view = self.agreed(belief, 'view')
        cur, dbv = self.agreed(belief, 'cur'), self.agreed(belief, 'db')
        sess = self.agreed(belief, 'sess')
        if dbv is not None and cur is not None and sess == 'stuck':
            # a call reported a hidden conflict (HFail): it had no effect; a successful exit commits the view as it
            # was, a failing exit commits nothing
            try:
                ad.do_End({})
                out = 'ok'
            except (core.OrmError, core.DBException, AssertionError) as exc:
                out = family(exc)
            if self.after_call:
                self.after_call('End', out)
            trace.append({'op': 'End', 'e': '-', 'k': 0, 'x': 0, 'y': 0, 'out': out, 'ret': [], 'final': True})
            if out not in ('ok', 'Integrity', 'Internal'):
                raise Mismatch('crash', 'End() after a call that reported a conflict: pony -> %s' % out)
            got, problems = w.dump()
            self.stats['commits_compared'] += 1
            kinds.add('exit-after-failed-call')
            want = norm_state(cur if out == 'ok' else dbv)
            if problems or got != want:
                raise Mismatch('failure', 'database after End(%s) of a session in which a call had reported a conflict is %r %s, '
                                          'specification says %r' % (out, got, '; '.join(problems), want))
            return
        if dbv is not None and sess == 'aborted':
            # a flush of this session has failed and the program caught the error (EndAfterFailure): whatever the
            # exit reports, nothing of the session may reach the database (C14)
            try:
                ad.do_End({})
                out = 'ok'
            except (core.OrmError, core.DBException, AssertionError) as exc:
                out = family(exc)
            if self.after_call:
                self.after_call('End', out)
            trace.append({'op': 'End', 'e': '-', 'k': 0, 'x': 0, 'y': 0, 'out': out, 'ret': [], 'final': True})
            if out not in ('ok', 'Integrity', 'Internal'):
                raise Mismatch('crash', 'End() after a failed flush: pony -> %s' % out)
            got, problems = w.dump()
            self.stats['commits_compared'] += 1
            kinds.add('exit-after-failed-flush')
            if problems or got != norm_state(dbv):
                raise Mismatch('keys', 'database after leaving a session whose flush had failed is %r %s, specification says '
                                        'it stays %r' % (got, '; '.join(problems), norm_state(dbv)))
            return
        if view is None or not view['quiet'] or cur is None or dbv is None:
            return
        if self.rng.random() < 0.75:
            try:
                ad.do_End({})
                out = 'ok'
            except (core.OrmError, core.DBException, AssertionError) as exc:
                out = family(exc)
            if self.after_call:
                self.after_call('End', out)
            trace.append({'op': 'End', 'e': '-', 'k': 0, 'x': 0, 'y': 0, 'out': out, 'ret': [], 'final': True})
            if out != 'ok':
                raise Mismatch('flush', 'End(): pony -> %s although the session\'s view is well formed and nothing conflicts; '
                                        'the specification requires the commit to succeed' % out)
            want = norm_state(cur)
            kinds.add('commit')
        else:
            ad.do_EndExc({})
            if self.after_call:
                self.after_call('EndExc', 'ok')
            trace.append({'op': 'EndExc', 'e': '-', 'k': 0, 'x': 0, 'y': 0, 'out': 'ok', 'ret': [], 'final': True})
            want = norm_state(dbv)
        got, problems = w.dump()
        self.stats['commits_compared'] += 1
        if problems:
            raise Mismatch('keys' if 'duplicate' in problems[0] else 'delete', 'database after the final %s: %s' % (trace[-1]['op'], '; '.join(problems)))
        if got != want:
            raise Mismatch('commit', 'database after the final %s is %r, specification says %r' % (trace[-1]['op'], got, want))

    # -- deep behaviours from tlc -simulate -------------------------------------------------------------
    def run_simulated(self, states):
        """Replay one behaviour produced by `tlc -simulate` (a concrete branch of the specification, typically much
        deeper than the exported graph). Data is compared at every step (returned values, free reads, projections,
        database dumps); when pony reports a different *outcome* than this branch the behaviour ends without a
        verdict, because the specification may allow that outcome on another branch (error timing is free)."""
        w, rng = self.world, self.rng
        w.reset(states[0]['db'])
        ad = Adapter(w, rng)
        trace = [{'init': norm_plain(states[0]['db']), 'open': states[0]['sess'] == 'open'}]
        if self.on_behaviour:
            self.on_behaviour('begin', trace)
        self.stats['behaviours'] += 1
        self.stats.setdefault('sim_inconclusive', 0)
        kinds = set()

        class OneState(set):
            pass
        try:
            if trace[0]['open']:
                ad.do_Begin({})
            for i in range(1, len(states)):
                prev, node = states[i - 1], states[i]
                ev = node['ev']
                if ev['op'] == 'tau':
                    continue
                key = Graph.key(ev)
                is_write = key[0] not in READ_OPS and key[0] not in CONTROL_OPS
                quiet_before = prev['view']['quiet']
                if key[0] == 'BulkDelete' and ad.touched:
                    self.stats['sim_inconclusive'] += 1     # modelled only for a session that holds no objects yet
                    break
                if is_write and quiet_before and rng.random() < 0.6:
                    self.stats['free_reads'] = self.stats.get('free_reads', 0) + self.free_reads_state(ad, prev, key, 'before')
                if key[0] in ('Commit', 'End') and quiet_before and rng.random() < 0.5:
                    ad.project(prev['cur'], 'before-commit')
                    self.stats['projections'] += 1
                out, ret = ad.call(ev)
                if self.after_call:
                    self.after_call(key[0], out)
                self.stats['steps'] += 1
                trace.append({'op': key[0], 'e': key[1], 'k': key[2], 'x': key[3], 'y': key[4], 'out': out, 'ret': sorted(ret)})
                if out != ev['out']:
                    if out.startswith('Other:') or (out == 'Internal' and key[0] != 'End'):
                        raise Mismatch('crash', '%s%r: pony -> %s; this branch of the specification expects %s' % (key[0], key[1:], out, ev['out']))
                    self.stats['sim_inconclusive'] += 1
                    break
                if out == 'ok' and set(ret) != set(ev['ret']):
                    raise Mismatch('read', '%s%r: pony returned %r; the specification says %r' % (key[0], key[1:], sorted(ret), sorted(ev['ret'])))
                quiet = node['view']['quiet']
                if node['sess'] == 'open':
                    curA, curB = fmap(node['cur']['A']), fmap(node['cur']['B'])
                    for (e, k) in list(w.registry):
                        if not (curA if e == 'A' else curB)[k]['ex']:
                            del w.registry[(e, k)]
                else:
                    w.registry = {}
                if key[0] in READ_OPS:
                    self.stats['reads_compared'] += 1
                if out not in ('ok', 'Integrity'):
                    self.stats['failures_checked'] += 1
                    kinds.add('failing-call')
                    if quiet:
                        ad.project(node['cur'], 'after-failure')
                        self.stats['projections'] += 1
                elif out == 'Integrity':
                    self.stats['flush_conflicts'] += 1
                    kinds.add('flush-conflict')
                if is_write and out == 'ok' and quiet:
                    n = self.free_reads_state(ad, node, key, 'after')
                    self.stats['free_reads'] = self.stats.get('free_reads', 0) + n
                    kinds.add('read-after-unflushed-write')
                if key[0] in ('Delete', 'CollRemove', 'CollClear', 'CollSet'):
                    self.stats['deletes'] += 1
                    kinds.add('delete')
                if key[0] in ('Commit', 'End', 'EndExc', 'Rollback') or out == 'Integrity':
                    got, problems = w.dump()
                    self.stats['commits_compared'] += 1
                    if problems:
                        raise Mismatch('keys' if 'duplicate' in problems[0] else 'delete', 'database after %s: %s' % (key[0], '; '.join(problems)))
                    if got != norm_state(node['db']):
                        raise Mismatch('keys' if out == 'Integrity' else 'commit',
                                       'database after %s(%s) is %r, specification says %r' % (key[0], out, got, norm_state(node['db'])))
                    if key[0] in ('Commit', 'End') and out == 'ok':
                        kinds.add('commit')
                elif quiet and rng.random() < 0.1:
                    ad.project(node['cur'], 'random-point')
                    self.stats['projections'] += 1
        except Mismatch as m:
            self.found.append((m.category, m.what, list(trace)))
        except MachineryError:
            raise
        except Exception as exc:
            tb = traceback.format_exc()
            self.found.append(('crash', 'unexpected %s in pony or the adapter: %s\n%s' % (type(exc).__name__, exc, tb[-1500:]), list(trace)))
        finally:
            self.stats['identity_checks'] += ad.identity_checks
            self.cleanup()
            if self.on_behaviour:
                self.on_behaviour('end', trace)
        for k in kinds:
            self.stats['nontrivial'][k] = self.stats['nontrivial'].get(k, 0) + 1
        return trace

    def free_reads_state(self, ad, state, key, when):
        """free_reads for a single known specification state (simulation mode)."""
        saved = (self.agreed, self.can_project)
        self.agreed = lambda belief, var: state[var]
        self.can_project = lambda belief, acts=None: state['view']['quiet']
        try:
            return self.free_reads(ad, None, key, when)
        finally:
            self.agreed, self.can_project = saved

    def cleanup(self):
        w = self.world
        if w.session is not None:
            s, w.session = w.session, None
            try:
                try:
                    raise SomeError()
                except SomeError:
                    import sys
                    s.__exit__(*sys.exc_info())
            except Exception:
                pass
        # a failed session may leave thread-local state behind
        try:
            core.rollback()
        except Exception:
            pass
        while core.local.db_session is not None:
            try:
                core.local.db_session.__exit__(SomeError, SomeError(), None)
            except Exception:
                core.local.db_session = None
        w.registry = {}


def export_graph(ctx, shape, max_level, **kw):
    nodes, edges, inits, res = tlc.dump_graph('PonySession', cfg_for(shape, max_level, props=False, **kw), ctx.scratch,
                                              tag='PonySession-%s' % shape, workers=4)
    return Graph(nodes, edges, inits), res
