"""Scheduler and adapter for spec/PonyOCC.tla (C20, C21, C35): replay of TLC interleavings on real threads.

* `cfg(...)` writes the TLC configuration for a bound of PonyOCC.
* `World` is a file-backed SQLite database with the entity T(id, a, b) (and P with P.items when an attribute
  is of kind "link"), declared according to the attribute kinds of the TLC configuration.
  `provider.transaction_lock` and `provider.pre_transaction_lock` are replaced by `StepLock`s: a lock that
  never blocks the OS thread silently - an acquirer that finds the lock taken *reports* `blocked` to the
  controller and parks until the controller wakes it up (so blocking is observed, never inferred from timeouts).
* `Interleaving` runs one db_session per worker thread; the controller hands one operation at a time to one
  worker and waits for its report, hence exactly one thread runs at any time.
* `replay_script` executes one behaviour of the specification (a list of steps with the observation record
  `ev` of every state and the committed rows after it) and returns the first disagreement, if any.
* `scripts_from_graph` / `scripts_from_behaviours` turn TLC output (dump_graph / simulate) into such scripts.
Timeouts exist only as a watchdog of the harness itself (MachineryError).
"""
import os
import queue
import shutil
import sqlite3
import threading

from . import tlc
from .tlc import MachineryError
from .tlaval import to_plain
from . import core as _core  # noqa: F401  (puts the pony tree on sys.path)

from pony.orm import core as pcore
from pony.orm import (Database, PrimaryKey, Required, Optional, Set, db_session, select, flush, rollback, commit,
                      OptimisticCheckError, UnrepeatableReadError, CommitException)

WATCHDOG = 60.0
INVARIANTS = ('TypeOK', 'NoLostUpdate', 'FailedContributeNothing', 'RepeatableOrLoud', 'LockedNotOverwritten',
              'LockersHoldLock')


# ------------------------------------------------------------------------------------------ TLC side
def cfg(NS=2, NO=1, MaxOps=2, KA='opt', KB='opt', Modes=('opt',), OpSet=('R', 'W', 'Q', 'F'), LockModes=('wait',),
        Ref=True, invariants=INVARIANTS, constraint=None, Modes1=None, OpSet1=None, MaxOpsN=None):
    """TLC configuration. OpSet/Modes: alphabet and session modes of all sessions; OpSet1/Modes1 (optional)
    override them for session 1 (e.g. session 1 reads/locks, the others write)."""
    def s(xs):
        return '{' + ', '.join('"%s"' % x for x in xs) + '}'
    lines = ['SPECIFICATION Spec', 'CONSTANTS', ' NS = %d' % NS, ' NO = %d' % NO, ' MaxOps = %d' % MaxOps, ' MaxOpsN = %d' % (MaxOps if MaxOpsN is None else MaxOpsN),
             ' KA = %s' % s((KA,) if isinstance(KA, str) else KA), ' KB = %s' % s((KB,) if isinstance(KB, str) else KB), ' ModesN = %s' % s(Modes), ' OpSetN = %s' % s(OpSet),
             ' Modes1 = %s' % s(Modes if Modes1 is None else Modes1),
             ' OpSet1 = %s' % s(OpSet if OpSet1 is None else OpSet1),
             ' LockModes = %s' % s(LockModes), ' RefPhantomRemove = %s' % ('TRUE' if Ref else 'FALSE'),
             'CHECK_DEADLOCK FALSE']
    lines += ['INVARIANT %s' % i for i in invariants]
    if constraint:
        lines.append('CONSTRAINT %s' % constraint)
    return '\n'.join(lines) + '\n'


def _at(f, i):
    """TLC prints a function over 1..n as a sequence: index it like the function."""
    return f[i - 1] if isinstance(f, tuple) else f[i]


def _step_of(state, no):
    ev = state['ev']
    st = {'s': int(ev['s']), 'k': str(ev['k']), 'o': int(ev['o']), 'x': str(ev['x']), 'm': str(ev['m']),
          'step': str(ev['step']), 'out': str(ev['out']), 'why': str(ev.get('why', '-')), 'retv': int(ev['retv']),
          'rets': sorted(int(i) for i in ev['rets'])}
    if st['k'] == 'W' and st['out'] == 'ok':
        st['wval'] = int(_at(_at(state['val'], st['s']), st['o'])[st['x']])
    rows = {}
    for o in range(1, no + 1):
        if _at(state['exists'], o):
            r = _at(state['row'], o)
            rows[str(o)] = [int(r['a']), int(r['b'])]
        else:
            rows[str(o)] = None
    st['rows'] = rows
    st['holder'] = int(state['lockHolder'])
    st['results'] = [str(r) for r in state['result']]
    return st


def script_of(states, kinds=None, variant=0):
    """states: list of parsed TLC states, states[0] initial."""
    init = states[0]
    kinds = (str(init['kind']['a']), str(init['kind']['b']))
    no = len(init['exists'])
    steps = [_step_of(st, no) for st in states[1:]]
    # a W that blocks is completed by a later Granted step: the value the program assigns is the one the
    # specification shows there (the real call is issued, with its argument, at the blocked step)
    for i, st in enumerate(steps):
        if st['k'] == 'W' and st['out'] == 'blocked':
            st['wval'] = 1
            for later in steps[i + 1:]:
                if later['s'] == st['s'] and later['step'] == 'grant' and later['out'] != 'blocked':
                    st['wval'] = later.get('wval', 1)
                    break
    return {'kinds': list(kinds), 'variant': variant, 'modes': [str(m) for m in init['mode']], 'no': no,
            'steps': steps}


def edge_class(src, dst):
    """Abstraction of a transition used to spend a limited replay budget evenly: the operation, its outcome
    and the part of the acting session's state that decides what pony has to do."""
    ev = dst['ev']
    s, o = int(ev['s']), int(ev['o'])
    if s == 0:
        return ('init',)
    holder = int(src['lockHolder'])
    key = [str(src['kind']['a']), str(src['kind']['b']),
           str(ev['k']), str(ev['x']), str(ev['m']), str(ev['out']), str(ev['step']), str(_at(src['mode'], s)),
           bool(_at(src['imm'], s)), bool(_at(src['touched'], s)),
           'mine' if holder == s else ('free' if holder == 0 else 'other'), len(src['waiting']),
           int(src['preHolder']) == s, int(src['preHolder']) != 0,
           bool(_at(src['collFull'], s)),
           tuple(sorted(str(x) for x in _at(src['status'], s)))]
    if o:
        dv = _at(_at(src['dbval'], s), o)
        cur = _at(src['row'], o)
        key += [str(_at(_at(src['status'], s), o)), tuple(sorted(_at(_at(src['rbits'], s), o))),
                tuple(sorted(_at(_at(src['wbits'], s), o))), tuple(sorted(_at(_at(src['notLoaded'], s), o))),
                tuple(sorted(_at(_at(src['written'], s), o))), tuple(sorted(_at(_at(src['oldReads'], s), o))),
                o in _at(src['forUpdate'], s),
                bool(_at(src['exists'], o)), tuple(sorted(x for x in ('a', 'b') if dv[x] != cur[x]))]
    else:
        per = []
        for p in range(1, len(src['exists']) + 1):
            stp = str(_at(_at(src['status'], s), p))
            dv = _at(_at(src['dbval'], s), p)
            cur = _at(src['row'], p)
            ex = bool(_at(src['exists'], p))
            changed = tuple(sorted((x, int(cur[x])) for x in ('a', 'b') if ex and stp != 'none' and dv[x] != cur[x]))
            per.append((stp, ex, tuple(sorted(_at(_at(src['rbits'], s), p))), tuple(sorted(_at(_at(src['wbits'], s), p))),
                        tuple(sorted(_at(_at(src['notLoaded'], s), p))), tuple(sorted(_at(_at(src['written'], s), p))),
                        tuple(sorted(_at(_at(src['oldReads'], s), p))), changed, p in _at(src['forUpdate'], s)))
        key.append(tuple(per))
    return tuple(key)


def scripts_from_graph(nodes, edges, inits, kinds, limit=None, variant_of=lambda i: 0, seed=0):
    """Path cover of the state graph: every edge lies on at least one script unless `limit` cuts the cover
    short - then the scripts are chosen so that every *class* of transitions (edge_class) is exercised before
    any class is exercised twice (rarest classes first), the rest of the budget goes to a seeded random choice
    of uncovered edges.  Every script starts in an initial state and is extended (preferring uncovered edges)
    until no session can move any more.
    Returns (scripts, edges_covered, edges_total, classes_covered, classes_total)."""
    import random
    rnd = random.Random(seed)
    # TLC's node ids are fingerprints under a per-run random polynomial: order by state content instead, so that
    # the same scripts are chosen on every run
    import hashlib
    canon = {n: hashlib.md5(repr(sorted((k, repr(v)) for k, v in st.items())).encode()).hexdigest()
             for n, st in nodes.items()}
    succ = {}
    for a, b in edges:
        if a != b:
            succ.setdefault(a, []).append(b)
    for a in succ:
        succ[a] = sorted(set(succ[a]), key=lambda n: (len(succ.get(n, ())) == 0, canon[n]))
    # BFS tree from the initial states
    parent = {}
    order = []
    frontier = sorted(inits, key=lambda n: canon[n])
    for i in frontier:
        parent[i] = None
    while frontier:
        nxt = []
        for a in frontier:
            order.append(a)
            for b in succ.get(a, ()):
                if b not in parent:
                    parent[b] = a
                    nxt.append(b)
        frontier = nxt
    order.sort(key=lambda n: canon[n])
    all_edges = [(a, b) for a in order for b in succ.get(a, ())]
    cls_of = {}
    members = {}
    for e in all_edges:
        c = edge_class(nodes[e[0]], nodes[e[1]])
        cls_of[e] = c
        members.setdefault(c, []).append(e)
    covered = set()
    covered_classes = set()
    scripts = []

    def add_path(e):
        a, b = e
        prefix = []
        n = a
        while n is not None:
            prefix.append(n)
            n = parent[n]
        prefix.reverse()
        path = prefix + [b]
        n = b
        seen_here = set(zip(path, path[1:]))
        while succ.get(n):
            cands = succ[n]
            nx = None
            for c in cands:                      # first an edge of a class not exercised yet, then any new edge
                if (n, c) not in covered and (n, c) not in seen_here and cls_of[(n, c)] not in covered_classes:
                    nx = c
                    break
            if nx is None:
                for c in cands:
                    if (n, c) not in covered and (n, c) not in seen_here:
                        nx = c
                        break
            if nx is None:
                nx = cands[0]
            seen_here.add((n, nx))
            path.append(nx)
            n = nx
        for i in range(len(path) - 1):
            covered.add((path[i], path[i + 1]))
            covered_classes.add(cls_of[(path[i], path[i + 1])])
        scripts.append(script_of([nodes[i] for i in path], kinds, variant_of(len(scripts))))

    def room():
        return limit is None or len(scripts) < limit

    # 1. one edge per class; classes whose outcome is an error, `blocked` or `none` first (that is where pony's
    #    protection mechanisms act), then the rarest classes
    def prio(c):
        out = c[5] if len(c) > 5 else 'ok'
        return (out == 'ok', len(members[c]), repr(c))
    for c in sorted(members, key=prio):
        if not room():
            break
        if c in covered_classes:
            continue
        add_path(members[c][0])
    # 2. the remaining edges: all of them (no limit) or a seeded random choice
    rest = [e for e in all_edges if e not in covered]
    if limit is not None:
        rnd.shuffle(rest)
    for e in rest:
        if not room():
            break
        if e not in covered:
            add_path(e)
    return scripts, len(covered), len(all_edges), len(covered_classes), len(members)


def scripts_from_behaviours(behaviours, kinds, variant_of=lambda i: 0):
    out = []
    for i, b in enumerate(behaviours):
        if len(b) > 1:
            out.append(script_of(b, kinds, variant_of(i)))
    return out


# ------------------------------------------------------------------------------------------ pony side
class StepLock(object):
    """Replacement of provider.transaction_lock / pre_transaction_lock (threading.Lock API subset pony uses)."""

    def __init__(self, name):
        self.name = name
        self.owner = None

    def acquire(self, blocking=True, timeout=-1):
        me = threading.current_thread()
        while self.owner is not None:
            if not isinstance(me, Worker):
                raise MachineryError('lock %s taken while the harness itself needs it' % self.name)
            me.report(('blocked', self.name))
            if not me.park.acquire(timeout=WATCHDOG * 4):
                raise MachineryError('blocked worker was never woken up')
        self.owner = me
        return True

    def release(self):
        self.owner = None

    def locked(self):
        return self.owner is not None


def _attr(kind, variant, other):
    if kind == 'opt':
        return Required(int)
    if kind == 'null':
        return Optional(int)          # nullable, NULL initially: the specification's value 0
    if kind == 'nonopt':
        return Required(float) if variant % 2 else Required(int, optimistic=False)
    if kind == 'volatile':
        return Required(int, volatile=True)
    if kind == 'link':
        return Optional('P')
    raise MachineryError('unknown attribute kind %r' % kind)


class World(object):
    """One database + mapping per (kinds, variant); rows are reset for every interleaving from a template file."""

    def __init__(self, scratch, kinds, variant=0, no=2):
        """variant bit 0: optimistic=False int / float for kind nonopt; bit 1: attribute b is declared in a
        subclass S of T and every row is an S (queries and lookups still go through the base entity T)."""
        self.kinds = tuple(kinds)
        self.variant = variant
        self.no = no
        self.inherit = bool(variant & 2) and 'link' not in kinds
        self.link = None
        for name, k in zip('ab', kinds):
            if k == 'link':
                self.link = name
        tag = '%s-%s-%d-%d' % (kinds[0], kinds[1], variant, no)
        self.path = scratch.path('occ', 'w-%s.sqlite' % tag)
        self.template = self.path + '.template'
        for p in (self.path, self.template):
            if os.path.exists(p):
                os.remove(p)
        db = self.db = Database()
        ns = {'id': PrimaryKey(int), 'u': Required(int, unique=True), 'a': _attr(kinds[0], variant, None)}
        if self.link:
            self.P = type('P', (db.Entity,), {'id': PrimaryKey(int), 'items': Set('T', reverse=self.link)})
        if self.inherit:
            self.T = type('T', (db.Entity,), ns)
            self.S = type('S', (self.T,), {'b': _attr(kinds[1], variant, None)})
        else:
            ns['b'] = _attr(kinds[1], variant, None)
            self.S = self.T = type('T', (db.Entity,), ns)
        db.bind('sqlite', self.path, create_db=True)
        db.generate_mapping(create_tables=True)
        with db_session:
            p = self.P(id=1) if self.link else None
            for o in range(1, no + 1):
                vals = {}
                for name, k in zip('ab', kinds):
                    vals[name] = (p if o == 1 else None) if k == 'link' else (None if k == 'null' else 0)
                self.S(id=o, u=10 + o, **vals)
        db.disconnect()
        shutil.copyfile(self.path, self.template)
        self.tlock = db.provider.transaction_lock = StepLock('transaction_lock')
        self.plock = db.provider.pre_transaction_lock = StepLock('pre_transaction_lock')
        self.qcounter = 0

    def reset(self):
        for suffix in ('-journal', '-wal', '-shm'):
            if os.path.exists(self.path + suffix):
                os.remove(self.path + suffix)
        shutil.copyfile(self.template, self.path)
        if self.tlock.owner is not None or self.plock.owner is not None:
            raise MachineryError('a lock is still held after the previous interleaving')

    def committed_rows(self, con):
        rows = {str(o): None for o in range(1, self.no + 1)}
        for r in con.execute('select id, a, b from T').fetchall():
            rows[str(r[0])] = [self._col(0, r[1]), self._col(1, r[2])]
        return rows

    def _col(self, i, v):
        if self.kinds[i] in ('link', 'null'):
            return 0 if v is None else int(v)
        return int(v)


def family(exc):
    """Error family of an exception that left a db_session."""
    def walk(e, depth=0):
        if isinstance(e, OptimisticCheckError):
            return 'optimistic_error'
        if isinstance(e, UnrepeatableReadError):
            return 'unrepeatable_error'
        if depth < 4 and isinstance(e, (CommitException, pcore.RollbackException)):
            for item in getattr(e, 'exceptions', ()) or ():
                r = walk(item[1], depth + 1)
                if r:
                    return r
        return None
    return walk(exc) or 'other:%s' % type(exc).__name__


MODE_KW = {'opt': [{}], 'imm': [{'immediate': True}], 'ser': [{'serializable': True}, {'optimistic': False}]}
LOCK_KW = {'wait': {}, 'nowait': {'nowait': True}, 'skip_locked': {'skip_locked': True}, 'bykey': {}, '-': {}}


class Worker(threading.Thread):
    def __init__(self, inter, sid, kw):
        threading.Thread.__init__(self, name='occ-session-%d' % sid, daemon=True)
        self.inter = inter
        self.world = inter.world
        self.sid = sid
        self.kw = kw
        self.inbox = queue.SimpleQueue()
        self.park = threading.Semaphore(0)

    def report(self, msg):
        self.inter.outq.put((self.sid, msg))

    def run(self):
        try:
            try:
                with db_session(**self.kw):
                    while True:
                        cmd = self.inbox.get()
                        if cmd['k'] == 'C':
                            break
                        if cmd['k'] == 'X':
                            rollback()
                            break
                        res = self.do(cmd)
                        self.report(('done', res))
                self.report(('done', ('ok', None)))
            except BaseException as e:   # noqa: the exception has left the db_session (rolled back)
                self.report(('done', ('error', e)))
        finally:
            try:
                self.world.db.disconnect()
            except Exception:
                pass

    # one function per abstract operation
    def do(self, cmd):
        w = self.world
        T = w.T
        k = cmd['k']
        if k in ('R', 'W', 'D'):
            obj = T.get(id=cmd['o'])
            if obj is None:
                return ('none', None)
            if k == 'R':
                v = getattr(obj, cmd['x'])
                if cmd['x'] == w.link:
                    v = 0 if v is None else v.id
                elif v is None and w.kinds['ab'.index(cmd['x'])] == 'null':
                    v = 0
                return ('ok', v)
            if k == 'W':
                v = cmd['wval']
                if cmd['x'] == w.link:
                    v = None if v == 0 else 1      # raw primary key of P[1]: no database access
                setattr(obj, cmd['x'], v)
                return ('ok', None)
            obj.delete()
            return ('ok', None)
        if k == 'GFU':
            if cmd['m'] == 'bykey':
                obj = T.get_for_update(u=10 + cmd['o'])      # unique non-pk key
            else:
                obj = T.get_for_update(id=cmd['o'], **LOCK_KW[cmd['m']])
            return ('none', None) if obj is None else ('ok', None)
        if k in ('Q', 'QFU'):
            w.qcounter += 1
            n = -w.qcounter          # a different parameter value each time: no hit in cache.query_results
            q = select(t for t in T if t.id > n)
            if k == 'QFU':
                q = q.for_update(**LOCK_KW[cmd['m']])
            return ('ok', sorted(t.id for t in q[:]))
        if k == 'QR':
            w.qcounter += 1
            n = -w.qcounter
            if cmd['x'] == 'a':
                q = select(t for t in T if t.a > n)
            else:
                q = select(t for t in T if t.b > n)          # with inheritance: subclass attribute, base entity
            return ('ok', sorted(t.id for t in q[:]))
        if k == 'CM':
            commit()
            return ('ok', None)
        if k == 'RC':
            return ('ok', sorted(t.id for t in set(w.P[1].items)))
        if k == 'LC':
            return ('ok', len(w.P[1].items))
        if k == 'F':
            flush()
            return ('ok', None)
        raise MachineryError('unknown operation %r' % (cmd,))


class Interleaving(object):
    """Two or three sessions on fresh threads over a fresh copy of the database file."""

    def __init__(self, world, modes, variant=0):
        self.world = world
        world.reset()
        self.outq = queue.SimpleQueue()
        self.workers = {}
        self.state = {}
        self.issued = {}
        for i, m in enumerate(modes):
            kws = MODE_KW[m]
            w = Worker(self, i + 1, kws[variant % len(kws)])
            self.workers[i + 1] = w
            self.state[i + 1] = 'idle'
            w.start()
        self.raw = sqlite3.connect(world.path, isolation_level=None, timeout=0.2)

    def _wait(self, sid):
        try:
            who, msg = self.outq.get(timeout=WATCHDOG)
        except queue.Empty:
            raise MachineryError('worker %d did not report within %ss (harness watchdog)' % (sid, WATCHDOG))
        if who != sid:
            raise MachineryError('report from session %d while session %d was running' % (who, sid))
        if msg[0] == 'blocked':
            self.state[sid] = 'blocked'
            return ('blocked', msg[1])
        res = msg[1]
        if res[0] == 'error':
            self.state[sid] = 'ended'
            return ('error', family(res[1]), res[1])
        self.state[sid] = 'idle'
        return res

    def step(self, sid, cmd):
        if self.state[sid] != 'idle':
            raise MachineryError('step for session %d which is %s' % (sid, self.state[sid]))
        self.workers[sid].inbox.put(cmd)
        self.issued[sid] = cmd
        r = self._wait(sid)
        if cmd['k'] in ('C', 'X') and r[0] == 'ok':
            self.state[sid] = 'ended'
        return r

    def grant(self, sid, cmd=None):
        if self.state[sid] != 'blocked':
            raise MachineryError('grant for session %d which is %s' % (sid, self.state[sid]))
        self.workers[sid].park.release()
        r = self._wait(sid)
        cmd = self.issued.get(sid) or cmd       # the operation that was issued when the session blocked
        if cmd is not None and cmd['k'] in ('C', 'X') and r[0] == 'ok':
            self.state[sid] = 'ended'
        return r

    def rows(self):
        return self.world.committed_rows(self.raw)

    def close(self, force=False):
        """End whatever is still running (not compared with anything).  force: a disagreement has already been
        reported for this interleaving, locks left behind by the real run are cleared instead of being an error."""
        try:
            self.raw.close()
        except Exception:
            pass
        for _ in range(3 * len(self.workers) + 3):
            idle = [s for s in sorted(self.workers) if self.state[s] == 'idle']
            blocked = [s for s in sorted(self.workers) if self.state[s] == 'blocked']
            if idle:
                self.step(idle[0], {'k': 'X'})
            elif blocked:
                progressed = False
                for s in blocked:
                    r = self.grant(s)
                    if r[0] != 'blocked':
                        progressed = True
                        break
                if not progressed:
                    if not force:
                        raise MachineryError('sessions blocked although nobody holds the lock')
                    self.world.tlock.owner = self.world.plock.owner = None
                    force = False
            else:
                break
        for w in self.workers.values():
            w.join(WATCHDOG)
            if w.is_alive():
                raise MachineryError('worker thread did not end')
        if force:
            self.world.tlock.owner = self.world.plock.owner = None


def _norm_ret(st, res):
    """(outcome, value) of a real step in the vocabulary of `ev`."""
    if res[0] == 'blocked':
        return 'blocked', None
    if res[0] == 'error':
        return res[1], None
    if res[0] == 'none':
        return 'none', None
    k = st['k']
    v = res[1]
    if k == 'R':
        return 'ok', int(v)
    if k == 'LC':
        return 'ok', int(v)
    if k in ('Q', 'QFU', 'QR', 'RC'):
        return 'ok', list(v)
    return 'ok', None


def _expected_ret(st):
    if st['out'] != 'ok':
        return st['out'], None
    k = st['k']
    if k in ('R', 'LC'):
        return 'ok', st['retv']
    if k in ('Q', 'QFU', 'QR', 'RC'):
        return 'ok', st['rets']
    return 'ok', None


def replay_script(world, script):
    """Run one behaviour. Returns None when the real run agrees with the specification at every step, else a
    dict describing the first disagreement: {index, step, expected, got, kind in (outcome, value, rows)}."""
    inter = Interleaving(world, script['modes'], script.get('variant', 0))
    found = [False]

    def bad(d):
        found[0] = True
        return d
    try:
        for i, st in enumerate(script['steps']):
            cmd = {'k': st['k'], 'o': st['o'], 'x': st['x'], 'm': st['m'], 'wval': st.get('wval')}
            if st['step'] == 'grant':
                res = inter.grant(st['s'], cmd)
            else:
                res = inter.step(st['s'], cmd)
            got = _norm_ret(st, res)
            exp = _expected_ret(st)
            if got[0] != exp[0]:
                detail = repr(res[2])[:300] if res[0] == 'error' else None
                return bad({'index': i, 'step': st, 'expected': exp[0], 'got': got[0], 'kind': 'outcome', 'detail': detail})
            if got[1] != exp[1]:
                return bad({'index': i, 'step': st, 'expected': exp[1], 'got': got[1], 'kind': 'value'})
            owner = inter.world.tlock.owner
            holder = owner.sid if isinstance(owner, Worker) else (0 if owner is None else -1)
            if 'holder' in st and holder != st['holder']:
                return bad({'index': i, 'step': st, 'expected': st['holder'], 'got': holder, 'kind': 'lock-holder'})
            rows = inter.rows()
            if rows != st['rows']:
                return bad({'index': i, 'step': st, 'expected': st['rows'], 'got': rows, 'kind': 'rows'})
        return None
    finally:
        inter.close(force=found[0])


class Worlds(object):
    """Cache of World objects per (kinds, variant, no)."""

    def __init__(self, scratch):
        self.scratch = scratch
        self.cache = {}

    def get(self, script):
        v = script.get('variant', 0)
        flavour = (v & 1 if 'nonopt' in script['kinds'] else 0) | (v & 2 if 'link' not in script['kinds'] else 0)
        key = (tuple(script['kinds']), flavour, script['no'])
        w = self.cache.get(key)
        if w is None:
            w = self.cache[key] = World(self.scratch, key[0], key[1], key[2])
        return w


def describe(script, upto=None):
    steps = script['steps'] if upto is None else script['steps'][:upto + 1]
    def one(st):
        arg = ','.join(str(a) for a in (st['o'], st['x'], st['m']) if a not in (0, '-'))
        g = '^' if st['step'] == 'grant' else ''
        return 's%d:%s%s(%s)=%s' % (st['s'], g, st['k'], arg, st['out'])
    return '%s %s | %s' % ('/'.join(script['kinds']), ','.join(script['modes']), ' '.join(one(s) for s in steps))


def plain(x):
    return to_plain(x)


# ------------------------------------------------------------------------------------------ checks
KNOWN_PHANTOM_REMOVE = 'C21:Set.db_reverse_remove:item-leaves-fully-loaded-collection-silently'


def signature(prop, script, mm):
    """Normal form of a disagreement.  The only structural special case is the one cause the specification
    itself names (ev.why): a delivery that must fail *only* because an item leaves a fully loaded collection."""
    st = mm['step']
    if mm['kind'] == 'outcome' and mm['expected'] == 'unrepeatable_error' and mm['got'] == 'ok' \
            and st.get('why') == 'phantom_remove':
        return KNOWN_PHANTOM_REMOVE
    ses = script['modes'][st['s'] - 1]
    if mm['kind'] == 'outcome':
        return '%s:%s:%s:%s:%s:expected=%s:got=%s' % (prop, '/'.join(script['kinds']), ses, st['k'],
                                                    'grant' if st['step'] == 'grant' else 'run',
                                                    mm['expected'], mm['got'].split(':')[0])
    return '%s:%s:%s:%s:%s-differs' % (prop, '/'.join(script['kinds']), ses, st['k'], mm['kind'])


def report(ctx, script, mm):
    cut = dict(script)
    cut['steps'] = script['steps'][:mm['index'] + 1]
    what = '%s ; step %d %s: expected %r, pony gave %r%s' % (
        describe(script, mm['index']), mm['index'] + 1, mm['kind'], mm['expected'], mm['got'],
        (' (%s)' % mm['detail']) if mm.get('detail') else '')
    return ctx.mismatch(signature(ctx.prop, script, mm), what, cut)


def run_plan(ctx, jobs, workers=4):
    """jobs: list of dicts {name, how: 'graph'|'check'|'simulate', cfg: {...}, limit, num, depth, coverage}.
    graph:    exhaustive TLC run (invariants checked) + state graph -> path cover -> replay on threads
    check:    exhaustive TLC run only (invariants; optionally -coverage)
    simulate: TLC -simulate behaviours (invariants checked along them) -> replay on threads"""
    worlds = Worlds(ctx.scratch)
    states = transitions = traces = 0
    per_job = []
    seen_ops = set()
    actions = {}
    exhaustive_all = True
    for job in jobs:
        kw = dict(job['cfg'])
        kinds = (kw.get('KA', 'opt'), kw.get('KB', 'opt'))
        text = cfg(**kw)
        info = {'job': job['name'], 'how': job['how'], 'bounds': {k: (list(v) if isinstance(v, tuple) else v) for k, v in kw.items()}}
        scripts = []
        if job['how'] == 'graph':
            nodes, edges, inits, res = tlc.dump_graph('PonyOCC', text, ctx.scratch, workers=workers, tag=job['name'])
            scripts, ecov, etot, ccov, ctot = scripts_from_graph(
                nodes, edges, inits, kinds, limit=job.get('limit'), variant_of=lambda i: i, seed=ctx.seed)
            for n in nodes.values():
                ev = n['ev']
                seen_ops.add('%s/%s%s' % (ev['k'], ev['out'], '/grant' if ev['step'] == 'grant' else ''))
            info.update(states=res.distinct, transitions=res.generated, edges=etot, edges_replayed=ecov,
                        transition_classes=ctot, transition_classes_replayed=ccov)
            if ecov < etot:
                exhaustive_all = False
            states += res.distinct
            transitions += res.generated
            del nodes, edges
        elif job['how'] == 'check':
            res = tlc.model_check('PonyOCC', text, ctx.scratch, workers=workers, coverage=bool(job.get('coverage')),
                                  tag=job['name'])
            info.update(states=res.distinct, transitions=res.generated, depth=res.depth)
            if job.get('coverage'):
                for a, (d, t) in res.coverage().items():
                    old = actions.get(a, (0, 0))
                    actions[a] = (old[0] + d, old[1] + t)
            states += res.distinct
            transitions += res.generated
        elif job['how'] == 'simulate':
            behaviours, res = tlc.simulate('PonyOCC', text, ctx.scratch, num=job['num'], depth=job['depth'],
                                           seed=ctx.seed + 1, tag=job['name'])
            scripts = scripts_from_behaviours(behaviours, kinds, variant_of=lambda i: i)
            for b in behaviours:
                for st in b[1:]:
                    ev = st['ev']
                    seen_ops.add('%s/%s%s' % (ev['k'], ev['out'], '/grant' if ev['step'] == 'grant' else ''))
            info.update(behaviours=len(scripts), states_along_behaviours=sum(len(b) for b in behaviours))
            exhaustive_all = False
        elif job['how'] == 'negative':
            # negative control: with the defect transcribed into the model, TLC must find the counterexample
            res = tlc.run('PonyOCC', text, ctx.scratch, workers=workers, must_succeed=False, tag=job['name'])
            if job['expect'] not in res.violated:
                raise MachineryError('negative control %s: TLC did not report %s violated (violated: %s)\n%s'
                                     % (job['name'], job['expect'], res.violated, res.stdout[-1500:]))
            info.update(violated_as_expected=job['expect'], states_until_counterexample=res.distinct)
        else:
            raise MachineryError('unknown job kind %r' % job['how'])
        bad = 0
        for sc in scripts:
            if len(ctx.violations) >= 40:
                break                      # the verdict is settled; do not replay the remaining interleavings
            mm = replay_script(worlds.get(sc), sc)
            traces += 1
            if mm is not None:
                bad += 1
                report(ctx, sc, mm)
            elif len(sc['steps']) >= 4:
                ctx.sample(describe(sc), limit=4)
        info.update(replayed=len(scripts), disagreements=bad, tlc_wall_s=round(res.wall, 1))
        per_job.append(info)
    ctx.coverage.update(states=states, transitions=transitions, traces_validated_against_impl=traces,
                        jobs=per_job, operations_and_outcomes_seen=sorted(seen_ops))
    if actions:
        ctx.coverage['tlc_action_coverage'] = {a: {'distinct': d, 'total': t} for a, (d, t) in sorted(actions.items())}
        dead = [a for a, (d, t) in actions.items() if t == 0]
        if dead:
            raise MachineryError('actions never taken in the specification: %s' % dead)
    return per_job


def replay_entry(ctx, rep):
    """./check CNN --replay file: re-executes the stored (cut) script."""
    worlds = Worlds(ctx.scratch)
    mm = replay_script(worlds.get(rep), rep)
    if mm is None:
        print('replay: pony agrees with the specification on this behaviour now')
        return
    print('replay: %s' % describe(rep, mm['index']))
    print('replay: step %d %s: expected %r, pony gave %r' % (mm['index'] + 1, mm['kind'], mm['expected'], mm['got']))
    report(ctx, rep, mm)
