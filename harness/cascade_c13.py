"""Replay of spec/PonyCascade.tla: a delete refused midway through a cascade (C13, C11, C15)."""
import random
import sqlite3

from . import tlc
from .tlc import MachineryError
from pony.orm import core
from pony.orm.core import Database, PrimaryKey, Required, Optional, Set, db_session


class Boom(Exception):
    pass


def cfg(level):
    return ('INIT Init\nNEXT Next\nCONSTANTS MaxLevel = %d\n KIds = {1, 2}\n RIds = {1}\n CIds = {1}\nCONSTRAINT Bounded\nCHECK_DEADLOCK FALSE\n'
            'INVARIANT NoOrphans\nACTION_CONSTRAINT StepProps\n' % level)


class World:
    def __init__(self, path):
        self.path = path
        db = self.db = Database()

        class P(db.Entity):
            _table_ = 'tp'
            id = PrimaryKey(int)
            ks = Set('K', cascade_delete=True)      # declared first: cascaded first
            rs = Set('R', cascade_delete=False)     # refuses the delete when non-empty

        class K(db.Entity):
            _table_ = 'tk'
            id = PrimaryKey(int)
            p = Required(P, column='p_id')
            w = Optional(int)
            cs = Set('C', cascade_delete=True)

        class R(db.Entity):
            _table_ = 'tr'
            id = PrimaryKey(int)
            p = Required(P, column='p_id')

        class C(db.Entity):
            _table_ = 'tc'
            id = PrimaryKey(int)
            k = Required(K, column='k_id')

        self.E = {'P': P, 'K': K, 'R': R, 'C': C}
        db.bind('sqlite', path, create_db=True)
        db.generate_mapping(create_tables=True)

    def reset(self, state):
        self.db.disconnect()
        con = sqlite3.connect(self.path, isolation_level=None)
        con.execute('PRAGMA foreign_keys=OFF')
        for t in ('tc', 'tk', 'tr', 'tp'):
            con.execute('DELETE FROM ' + t)
        if state['p']:
            con.execute('INSERT INTO tp (id) VALUES (1)')
        for k in state['K']:
            con.execute('INSERT INTO tk (id, p_id, w) VALUES (?, 1, ?)', (k, 1 if k in state.get('W', ()) else None))
        for k in state['R']:
            con.execute('INSERT INTO tr (id, p_id) VALUES (?, 1)', (k,))
        for k in state.get('C', ()):
            con.execute('INSERT INTO tc (id, k_id) VALUES (?, 1)', (k,))
        con.close()

    def dump(self):
        con = sqlite3.connect(self.path)
        p = con.execute('SELECT COUNT(*) FROM tp').fetchone()[0] == 1
        K = set(k for k, in con.execute('SELECT id FROM tk'))
        W = set(k for k, in con.execute('SELECT id FROM tk WHERE w IS NOT NULL'))
        C = set(k for k, in con.execute('SELECT id FROM tc'))
        R = set(k for k, in con.execute('SELECT id FROM tr'))
        fk = con.execute('PRAGMA foreign_key_check').fetchall()
        con.close()
        return {'p': p, 'K': K, 'R': R, 'W': W, 'C': C}, fk


def norm(s):
    return {'p': s['p'], 'K': set(s['K']), 'R': set(s['R']), 'W': set(s.get('W', ())), 'C': set(s.get('C', ()))}


def look(w, st, rng):
    """Everything the program can observe, with identity checks."""
    P, K, R = w.E['P'], w.E['K'], w.E['R']
    out = set()
    objs = st['objs']

    def same(e, k, o):
        prev = objs.get((e, k))
        if prev is not None and prev is not o:
            raise AssertionError('%s[%d] is a different Python object than before' % (e, k))
        objs[(e, k)] = o
    form = rng.randrange(2)
    p = P.get(id=1)
    if p is not None:
        same('P', 1, p)
        out.add(('P', 1))
    ks = K.select()[:] if form else [o for o in (K.get(id=i) for i in (1, 2)) if o is not None]
    rs = R.select()[:] if form else [o for o in (R.get(id=i) for i in (1,)) if o is not None]
    for o in ks:
        same('K', o.id, o)
        out.add(('K', o.id))
        if o.w is not None:
            out.add(('W', o.id))
    for o in rs:
        same('R', o.id, o)
        out.add(('R', o.id))
    C = w.E['C']
    cs = C.select()[:] if form else [o for o in (C.get(id=i) for i in (1,)) if o is not None]
    for o in cs:
        same('C', o.id, o)
        out.add(('C', o.id))
        if o.k.id != 1 or o not in o.k.cs:
            raise AssertionError('C[%d] is not in K[1].cs / its k is %r' % (o.id, o.k))
    if p is not None:
        inks = set(o.id for o in p.ks)
        inrs = set(o.id for o in p.rs)
        if inks != set(o.id for o in ks) or inrs != set(o.id for o in rs):
            raise AssertionError('P[1].ks = %r, P[1].rs = %r but the objects that exist are K%r R%r' % (
                sorted(inks), sorted(inrs), sorted(o.id for o in ks), sorted(o.id for o in rs)))
        for o in ks + rs:
            if o.p is not p:
                raise AssertionError('%r.p is not P[1]' % (o,))
    return out


def execute(w, st, ev, rng):
    op, e, k = ev['op'], ev['e'], ev['k']
    if op == 'Begin':
        st['s'] = db_session()
        st['s'].__enter__()
        st['objs'] = {}
        return 'ok', set()
    if op == 'End':
        st.pop('s').__exit__(None, None, None)
        return 'ok', set()
    if op == 'EndExc':
        s = st.pop('s')
        try:
            raise Boom()
        except Boom:
            import sys
            s.__exit__(*sys.exc_info())
        return 'ok', set()
    if op == 'Look':
        return 'ok', look(w, st, rng)
    try:
        if op == 'Create' and e == 'C':
            k1 = st['objs'].get(('K', 1)) or w.E['K'][1]
            st['objs'][('K', 1)] = k1
            st['objs'][(e, k)] = w.E['C'](id=k, k=k1)
            return 'ok', set()
        if op == 'Create':
            p = st['objs'].get(('P', 1)) or w.E['P'][1]
            st['objs'][('P', 1)] = p
            st['objs'][(e, k)] = w.E[e](id=k, p=p)
            return 'ok', set()
        if op == 'SetW':
            o = st['objs'].get((e, k)) or w.E[e][k]
            st['objs'][(e, k)] = o
            o.w = None if o.w is not None else 1
            return 'ok', set()
        if op == 'Delete':
            o = st['objs'].get((e, k)) or w.E[e][k]
            o.delete()
            st['objs'].pop((e, k), None)
            if e == 'P':
                st['objs'] = {}
            if e == 'K' and k == 1:
                for key in [x for x in st['objs'] if x[0] == 'C']:
                    st['objs'].pop(key)
            return 'ok', set()
    except core.ConstraintError:
        return 'ConstraintError', set()
    raise MachineryError('unknown action ' + op)


def run(ctx, nbeh, level, seed):
    nodes, edges, inits, res = tlc.dump_graph('PonyCascade', cfg(level), ctx.scratch, workers=4)
    succ = {}
    for s, d in edges:
        if d not in succ.setdefault(s, []):
            succ[s].append(d)
    w = World(ctx.scratch.path('db', 'cascade.sqlite'))
    rng = random.Random(seed)
    visited = set()
    found = []
    stats = {'behaviours': 0, 'refused_deletes': 0, 'refused_deletes_with_new_children': 0}
    for i in range(nbeh):
        u = rng.choice(inits)
        w.reset(norm(nodes[u]['db']))
        st = {'objs': {}}
        trace = [{'init': {k: (sorted(v) if not isinstance(v, bool) else v) for k, v in norm(nodes[u]['db']).items()}}]
        stats['behaviours'] += 1
        try:
            for _ in range(level + 2):
                acts = {}
                for v in succ.get(u, ()):
                    e = nodes[v]['ev']
                    acts.setdefault((e['op'], e['e'], e['k']), []).append(v)
                if not acts:
                    break
                keys = sorted(acts)
                fresh = [k for k in keys if any((u, v) not in visited for v in acts[k])]
                key = rng.choice(fresh if fresh and rng.random() < 0.8 else keys)
                ev0 = nodes[acts[key][0]]['ev']
                try:
                    try:
                        out, ret = execute(w, st, ev0, rng)
                    except AssertionError:
                        if key[0] == 'Look':
                            raise           # the harness's own observation checks
                        import traceback
                        raise RuntimeError('AssertionError inside pony: ' + traceback.format_exc()[-600:])
                    if key[0] == 'Delete' and out == 'ConstraintError':
                        stats['refused_deletes'] += 1
                        if nodes[u]['new']:
                            stats['refused_deletes_with_new_children'] += 1
                        # C13: after the refusal everything observable is as before
                        got = look(w, st, rng)
                        want = set(tuple(x) for x in nodes[[v for v in succ[u] if nodes[v]['ev']['op'] == 'Look'][0]]['ev']['ret']) \
                            if any(nodes[v]['ev']['op'] == 'Look' for v in succ[u]) else None
                        if want is not None and got != want:
                            raise AssertionError('after the refused delete the session shows %r, before it showed %r' % (sorted(got), sorted(want)))
                except MachineryError:
                    raise
                except AssertionError as exc:
                    trace.append({'op': key[0], 'e': key[1], 'k': key[2], 'out': 'observation'})
                    found.append((str(exc), trace))
                    break
                except Exception as exc:
                    import traceback
                    trace.append({'op': key[0], 'e': key[1], 'k': key[2], 'out': 'crash:' + type(exc).__name__})
                    found.append(('unexpected %s inside pony: %s\n%s' % (type(exc).__name__, exc, traceback.format_exc()[-1000:]), trace))
                    break
                trace.append({'op': key[0], 'e': key[1], 'k': key[2], 'out': out, 'ret': sorted(ret)})
                match = [v for v in acts[key] if nodes[v]['ev']['out'] == out and set(tuple(x) for x in nodes[v]['ev']['ret']) == set(ret)]
                if not match:
                    exp = [(nodes[v]['ev']['out'], sorted(nodes[v]['ev']['ret'])) for v in acts[key]]
                    found.append(('%s%r: pony -> %s %r; the specification allows %r' % (key[0], key[1:], out, sorted(ret), exp), trace))
                    break
                if key[0] in ('End', 'EndExc'):
                    got, fk = w.dump()
                    if fk or got != norm(nodes[match[0]]['db']):
                        found.append(('database after %s is %r (fk check %r), the specification says %r' % (key[0], got, fk, norm(nodes[match[0]]['db'])), trace))
                        break
                visited.add((u, match[0]))
                u = match[0]
        finally:
            s = st.pop('s', None)
            if s is not None:
                try:
                    s.__exit__(Boom, Boom(), None)
                except Exception:
                    pass
            while core.local.db_session is not None:
                try:
                    core.local.db_session.__exit__(Boom, Boom(), None)
                except Exception:
                    core.local.db_session = None
    w.db.disconnect()
    return res, stats, found, len(set(edges)), len(visited)


def replay(ctx, rep):
    w = World(ctx.scratch.path('db', 'cascade.sqlite'))
    tr = rep['cascade_trace']
    init = tr[0]['init']
    w.reset({'p': init['p'], 'K': init['K'], 'R': init['R']})
    st = {'objs': {}}
    rng = random.Random(0)
    for t in tr[1:]:
        if t['out'] in ('observation',) or t['out'].startswith('crash'):
            print(t, '(the recorded disagreement happened here)')
            try:
                print(execute(w, st, t, rng))
                print(look(w, st, rng))
            except Exception as e:
                print(type(e).__name__, e)
            break
        print(t, '->', execute(w, st, t, rng))
    print('database:', w.dump())
