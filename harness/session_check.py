"""Shared runner of the PonySession checks (C09 C10 C11 C12 C13 C14 C15 C16 C23):
per shape: TLC checks the spec's own invariants/action properties exhaustively in the bounded model, exports the
state graph, and the driver replays behaviours into pony. Disagreements are attributed to the property whose
comparator found them (session.CATEGORIES); a check fails only for disagreements of its own property.
"""
import json
import multiprocessing
import os
import re
import time

from . import session, tlc
from .tlc import MachineryError

ALL_SHAPES = list(session.SHAPES)


def _one_shape(args):
    """One worker: TLC (properties + graph export) once for the shape, then replay under each strategy."""
    (shape, level, nbeh, seed, strategies, scratch_dir, workers, nsim, sim_depth, sys_depth, sys_budget, deep_props) = args

    class _Scratch:
        dir = scratch_dir
        def path(self, *names):
            p = os.path.join(self.dir, shape, *names)
            os.makedirs(os.path.dirname(p), exist_ok=True)
            return p

    class _Ctx:
        scratch = _Scratch()

    ctx = _Ctx()
    outs = []
    t0 = time.time()
    try:
        # one TLC run: exhaustive check of the specification's invariants and action properties + graph export
        glevel = min(level, 4)
        nodes, edges, inits, res = tlc.dump_graph('PonySession', session.cfg_props(shape, glevel), ctx.scratch,
                                                  tag='PonySession-%s' % shape, workers=workers)
        if level > glevel and deep_props:
            # thorough tier: the specification's own properties one level deeper than the exported graph, on the shapes
            # this property's quick tier uses (the state graph of level 5 has 3.6 M states over the eleven shapes:
            # exporting it costs more than it adds, the deep behaviours come from the systematic enumeration and from
            # tlc -simulate; together the nine properties cover every shape at level 5)
            res = tlc.model_check('PonySession', session.cfg_props(shape, level), ctx.scratch,
                                  tag='PonySessionProps-%s' % shape, workers=workers)
        level = glevel
        t_tlc = round(time.time() - t0, 1)
        for j, strategy in enumerate(strategies):
            g = session.Graph(nodes, edges, inits)
            out = {'shape': shape, 'strategy': strategy, 'level': level, 't_tlc': t_tlc if j == 0 else 0}
            if j == 0:
                out['props_states'] = res.distinct
                out['props_transitions'] = res.generated
            out['states'] = len(g.nodes)
            out['transitions'] = g.nedges
            d = session.Driver(ctx, shape, g, strategy=strategy, seed=seed + j)
            t1 = time.time()
            traces = []
            for i in range(nbeh):
                tr = d.run_behaviour(level + 3)
                if i < 2:
                    traces.append(tr)
            # systematic enumeration: every sequence of at most sys_depth modifying/control calls from each seeded
            # open session, on the reduced alphabet (one attribute value, reads asked through `view`)
            if sys_depth and j == 0:
                n2, e2, i2, r2 = tlc.dump_graph('PonySession', session.cfg_props(shape, sys_depth + 1, vals=(1,), reads=False),
                                                ctx.scratch, tag='PonySessionSys-%s' % shape, workers=workers)
                g2 = session.Graph(n2, e2, i2)
                d.g = g2
                opens = [i for i in i2 if n2[i]['sess'] == 'open']
                done_all = True
                nseq = 0
                t_sys = time.process_time()
                for k, i in enumerate(opens):
                    share = sys_budget * (k + 1) / len(opens)
                    cnt, done = d.run_systematic(sys_depth, t_sys + share, i)
                    nseq += cnt
                    done_all = done_all and done
                d.g = g
                out['sys_sequences'] = nseq
                out['sys_exhaustive'] = done_all
                out['sys_states'] = r2.distinct
                out['sys_transitions'] = r2.generated
            # deep behaviours: tlc -simulate (one concrete branch each, depth well beyond the exported graph)
            if nsim:
                cfg = session.cfg_for(shape, 99, props=True) + 'ACTION_CONSTRAINT StepProps\n'
                sims, sres = tlc.simulate('PonySession', cfg, ctx.scratch, num=nsim, depth=sim_depth, seed=seed + 17 + j,
                                          tag='sim-%s' % shape)
                for b in sims:
                    d.run_simulated(b)
                out['sim_behaviours'] = len(sims)
                out['sim_states'] = sres.generated
            out['t_replay'] = round(time.time() - t1, 1)
            out['stats'] = d.stats
            out['edges_visited'] = len(g.visited)
            out['found'] = d.found[:200]
            out['nfound'] = len(d.found)
            out['samples'] = traces
            d.close()
            outs.append(out)
    except MachineryError as e:
        outs.append({'shape': shape, 'machinery': str(e)})
    return outs


def repointed_then_deleted(trace):
    """The history of the recorded finding C16 'flush order: delete of a re-pointed dependent after its old parent':
    within one flush window a B object whose database row refers to A[p] is re-pointed (or unlinked), then A[p] is
    deleted, then the B object itself is deleted. Returns True iff the behaviour contains that pattern."""
    init = trace[0].get('init', {}) if trace and isinstance(trace[0], dict) else {}
    dbref = {int(k): (v[1] if isinstance(v, (list, tuple)) else 0) for k, v in init.get('B', {}).items()}
    moved, parent_gone = set(), set()
    for t in trace[1:]:
        op, e, k, x, y, out = t.get('op'), t.get('e'), t.get('k'), t.get('x'), t.get('y'), t.get('out')
        if out != 'ok' and not t.get('final'):
            if op in ('Flush', 'Commit', 'End'):
                pass
            continue
        if op in ('Flush', 'Commit', 'End', 'EndExc', 'Rollback', 'Begin'):
            if op in ('EndExc', 'Rollback', 'Begin'):
                moved, parent_gone = set(), set()
            elif out == 'ok':
                for b in list(dbref):
                    pass
                moved, parent_gone = set(), set()      # what was pending is in the database now (refs unknown: stop tracking)
                dbref = {}
            continue
        if op == 'SetRef' and dbref.get(k) and x != dbref[k]:
            moved.add(k)
        elif op == 'SetMany' and dbref.get(k) and y != dbref[k]:
            moved.add(k)
        elif op in ('CollSet', 'CollAdd'):
            members = [b for b in (1, 2) if x & b] if op == 'CollSet' else [x]
            for b, p in dbref.items():
                if p and p != k and b in members:
                    moved.add(b)
                if op == 'CollSet' and p == k and b not in members:
                    moved.add(b)
        elif op in ('CollRemove', 'CollClear'):
            for b, p in dbref.items():
                if p == k and (op == 'CollClear' or b == x):
                    moved.add(b)
        elif op == 'Delete' and e == 'A':
            for b in moved:
                if dbref.get(b) == k:
                    parent_gone.add(b)
        elif op == 'Delete' and e == 'B' and k in parent_gone:
            return True
    return False


def signature(prop, shape, category, what):
    """Normal form of a disagreement: property, relationship shape, category, call and outcomes (no data values)."""
    first = what.split('\n')[0]
    m = re.match(r"(\w+)\((.*?)\): pony -> (\S+) .*the specification allows (.*)", first)
    if m:
        allowed = '|'.join(sorted(set(re.findall(r"\('(\w+)'", m.group(4)))))
        return '%s:%s:%s:%s:pony=%s:spec=%s' % (prop, shape, category, m.group(1), m.group(3), allowed)
    first = re.sub(r'\d+', 'N', first)
    first = re.sub(r'\{.*', '', first)
    return '%s:%s:%s:%s' % (prop, shape, category, first[:80].strip())


# the quick tier runs four shapes per property (together the properties cover all shapes); thorough runs all
QUICK_SHAPES = {
    'C09': ['o2m_opt', 'm2m', 'o2o_req_casc', 'mix_opt'],
    'C10': ['o2m_req_casc', 'm2m', 'o2o_opt', 'o2m_opt'],
    'C11': ['o2m_opt_casc', 'o2o_req', 'm2m', 'mix_opt', 'o2m_opt_cpk'],
    'C12': ['o2o_opt', 'm2m', 'mix_req_nocasc', 'o2m_opt', 'mix_opt_cpk'],
    'C13': ['o2m_req_nocasc', 'o2o_req', 'mix_req_nocasc', 'o2m_opt'],
    'C14': ['o2m_opt', 'o2o_opt', 'm2m', 'o2m_req_casc'],
    'C15': ['o2m_req_casc', 'o2m_req_nocasc', 'o2o_req_casc', 'mix_req_nocasc', 'o2o_opt_childcasc'],
    'C16': ['o2m_req_casc', 'o2m_opt', 'o2o_req', 'm2m'],
    'C23': ['o2m_opt', 'o2o_opt', 'm2m', 'mix_opt'],
}


def run(ctx, prop, shapes=None, strategies=('default',), focus=None):
    quick = ctx.tier == 'quick'
    shapes = shapes or (QUICK_SHAPES[prop] if quick else ALL_SHAPES)
    level = 3 if quick else 5
    nbeh = 700 if quick else 4000
    nsim = 120 if quick else 1200
    if len(strategies) > 1:
        nbeh = nbeh // 2
        nsim = nsim // 3
    jobs = [(shape, level, nbeh, ctx.seed * 1000 + i * 10, tuple(strategies), ctx.scratch.dir, 4 if quick else 2, nsim, 14 if quick else 20, 3 if quick else 4, 20 if quick else 180,
             shape in QUICK_SHAPES.get(prop, ()))      # thorough: the level-5 check of the specification on this property's own shapes
            for i, shape in enumerate(shapes)]
    mp = multiprocessing.get_context('fork')
    with mp.Pool(min(len(jobs), 8)) as pool:
        results = [r for rs in pool.map(_one_shape, jobs) for r in rs]
    mine = [c for c, p in session.CATEGORIES.items() if p == prop]
    states = transitions = behaviours = steps = 0
    agg = {}
    nontrivial = {}
    others = {}
    other_list = []
    for r in results:
        if 'machinery' in r:
            raise MachineryError('shape %s: %s' % (r['shape'], r['machinery']))
        states += r.get('props_states', 0) + r.get('sys_states', 0)
        transitions += r.get('props_transitions', 0) + r.get('sys_transitions', 0)
        behaviours += r['stats']['behaviours']
        steps += r['stats']['steps']
        for k, v in r['stats'].items():
            if isinstance(v, int):
                agg[k] = agg.get(k, 0) + v
        for k, v in r['stats']['nontrivial'].items():
            nontrivial[k] = nontrivial.get(k, 0) + v
        for category, what, trace in r['found']:
            if r['strategy'] == 'lazy' and category == 'keys' and 'pony -> ok' in what and 'CacheIndexError' in what:
                # with every attribute lazy, loading a row does not put its unique value into the identity map's index, so a
                # conflicting assignment is accepted and found at flush time: allowed error timing (C14), not a disagreement
                agg['lazy_key_timing'] = agg.get('lazy_key_timing', 0) + 1
                continue
            owner = session.CATEGORIES.get(category)
            how = trace[0].get('probe') if trace and isinstance(trace[0], dict) else None
            if prop == 'C23' and category in ('read', 'ends', 'identity', 'commit', 'failure') and \
                    (r['strategy'] != 'default' or how in ('seed', 'prime')):
                # the same behaviour, replayed under a non-default loading strategy - or on objects obtained as bare
                # references / with everything loaded beforehand - must observe the same data
                owner = 'C23'
            if category == 'crash':
                owner = prop     # an unexpected exception inside pony concerns every property of the session model
            fk_failure = (category == 'crash' and 'FOREIGN KEY constraint failed' in what) or \
                         (category in ('keys', 'flush', 'commit') and 'pony -> Integrity' in what)
            if fk_failure and repointed_then_deleted(trace):
                # recorded finding (C16): the signature names the history, not the shape it happened to be met in
                ctx.mismatch('%s:flush-order:repointed-dependent-deleted-after-its-old-parent' % prop,
                             'shape %s, strategy %s: %s' % (r['shape'], r['strategy'], what),
                             {'shape': r['shape'], 'strategy': r['strategy'], 'trace': trace, 'what': what})
            elif owner == prop:
                ctx.mismatch(signature(prop, r['shape'], category, what),
                             'shape %s, strategy %s: %s' % (r['shape'], r['strategy'], what),
                             {'shape': r['shape'], 'strategy': r['strategy'], 'trace': trace, 'what': what})
            else:
                others[owner] = others.get(owner, 0) + 1
                other_list.append({'signature': signature(owner, r['shape'], category, what), 'what': what, 'shape': r['shape'],
                                   'strategy': r['strategy'], 'trace': trace})
        for tr in r['samples'][:1]:
            ctx.sample({'shape': r['shape'], 'behaviour': tr})
    if others:
        # kept for diagnosis: the owning property's own check decides them
        from .core import OUT_DIR
        os.makedirs(OUT_DIR, exist_ok=True)
        with open(os.path.join(OUT_DIR, '%s-others.json' % prop), 'w') as f:
            json.dump(other_list, f, indent=1, default=list)
        print('note: disagreements attributed to other properties in this run (not counted here): %r' % others)
    rule = {
        'C09': 'behaviours containing a successful commit/end after which the database file was dumped and compared',
        'C10': 'behaviours containing a read executed while the session had unflushed changes',
        'C11': 'behaviours; every object retrieval is checked for identity against the first object seen for that key',
        'C12': 'behaviours; both ends of every relationship compared at every projection',
        'C13': 'behaviours containing a failing modification followed by a full projection of the session',
        'C14': 'behaviours containing a key conflict reported at flush/commit time, plus every dump checked for duplicate keys',
        'C15': 'behaviours containing a delete/remove/clear, every dump checked for dangling references',
        'C16': 'behaviours containing a commit of pending writes under immediately enforced foreign keys',
        'C23': 'behaviours replayed under every loading strategy',
    }[prop]
    key = {'C09': 'commit', 'C10': 'read-after-unflushed-write', 'C13': 'failing-call', 'C14': 'flush-conflict',
           'C15': 'delete', 'C16': 'commit'}.get(prop)
    ctx.coverage.update({
        'states': states, 'transitions': transitions,
        'traces_validated_against_impl': behaviours,
        'steps_replayed': steps,
        'graph_states_exported': sum(r['states'] for r in results),
        'graph_transitions_exported': sum(r['transitions'] for r in results),
        'graph_transitions_replayed': sum(r['edges_visited'] for r in results),
        'systematic_sequences': sum(r.get('sys_sequences', 0) for r in results),
        'systematic_depth': 3 if quick else 4,
        'systematic_exhaustive_shapes': sorted(r['shape'] for r in results if r.get('sys_exhaustive')),
        'simulated_deep_behaviours': sum(r.get('sim_behaviours', 0) for r in results),
        'simulated_inconclusive': sum(r['stats'].get('sim_inconclusive', 0) for r in results),
        'free_reads': sum(r['stats'].get('free_reads', 0) for r in results),
        'shapes': sorted(set(r['shape'] for r in results)), 'strategies': list(strategies),
        'max_level': level,
        'per_shape': [{'shape': r['shape'], 'strategy': r['strategy'], 't_tlc_s': r.get('t_tlc'), 't_replay_s': r.get('t_replay'),
                       'behaviours': r['stats']['behaviours'], 'systematic_sequences': r.get('sys_sequences', 0)} for r in results],
        'distinct_nontrivial_rule': rule,
        'nontrivial_behaviours': nontrivial.get(key, behaviours) if key else behaviours,
        'comparisons': {k: agg.get(k, 0) for k in ('commits_compared', 'projections', 'failures_checked', 'reads_compared',
                                                   'identity_checks', 'flush_conflicts', 'deletes')},
    })
    ctx.assumptions += ['exhaustive only within the bounds: 2 A ids x 2 B ids x values {None,1,2}, behaviours of at most %d steps from 4 seeded databases' % level,
                        'error timing of key conflicts and implicit flushes are left open by the specification (DESIGN.md 3.1); SQLite only']
    return results
