"""Replay of spec/PonyCycle.tla (second half of C16: reference cycles among newly created objects)."""
import random
import sqlite3

from . import tlc
from .tlc import MachineryError
from pony.orm import core
from pony.orm.core import Database, PrimaryKey, Optional, Set, db_session


class Boom(Exception):
    pass


def cfg(level, ids):
    return ('INIT Init\nNEXT Next\nCONSTANTS MaxLevel = %d\n Ids = {%s}\nCONSTRAINT Bounded\nCHECK_DEADLOCK FALSE\n'
            'INVARIANT NoDangling\nACTION_CONSTRAINT StepProps\n' % (level, ','.join(map(str, ids))))


class World:
    def __init__(self, path):
        self.path = path
        db = self.db = Database()

        class X(db.Entity):
            _table_ = 'tx'
            id = PrimaryKey(int)
            y = Optional('Y', reverse='xs', column='y_id')
            ys = Set('Y', reverse='x')

        class Y(db.Entity):
            _table_ = 'ty'
            id = PrimaryKey(int)
            x = Optional(X, reverse='ys', column='x_id')
            xs = Set(X, reverse='y')

        self.E = {'X': X, 'Y': Y}
        db.bind('sqlite', path, create_db=True)
        db.generate_mapping(create_tables=True)

    def reset(self, state=None):
        self.db.disconnect()
        con = sqlite3.connect(self.path, isolation_level=None)
        con.execute('PRAGMA foreign_keys=OFF')
        con.execute('DELETE FROM tx')
        con.execute('DELETE FROM ty')
        if state:
            for k, r in state['X'].items():
                con.execute('INSERT INTO tx (id, y_id) VALUES (?, ?)', (k, r or None))
            for k, r in state['Y'].items():
                con.execute('INSERT INTO ty (id, x_id) VALUES (?, ?)', (k, r or None))
        con.close()

    def dump(self):
        con = sqlite3.connect(self.path)
        x = {k: (r or 0) for k, r in con.execute('SELECT id, y_id FROM tx')}
        y = {k: (r or 0) for k, r in con.execute('SELECT id, x_id FROM ty')}
        fk = con.execute('PRAGMA foreign_key_check').fetchall()
        con.close()
        return {'X': x, 'Y': y}, fk


def fmap(f):
    return {i + 1: v for i, v in enumerate(f)} if isinstance(f, tuple) else f


def norm(s):
    return {e: {k: r['r'] for k, r in fmap(s[e]).items() if r['ex']} for e in ('X', 'Y')}


def execute(w, st, ev, rng):
    op, e, k, r = ev['op'], ev['e'], ev['k'], ev['r']
    other = 'Y' if e == 'X' else 'X'
    attr = 'y' if e == 'X' else 'x'
    try:
        if op == 'Begin':
            st['s'] = db_session()
            st['s'].__enter__()
            st['objs'] = {}
            return 'ok'
        if op == 'End':
            s = st.pop('s')
            st['objs'] = {}
            s.__exit__(None, None, None)
            return 'ok'

        def get(ent, key):
            o = st['objs'].get((ent, key))
            if o is None:
                o = st['objs'][(ent, key)] = w.E[ent][key]
            return o
        if op == 'Create':
            kw = {'id': k}
            if r:
                kw[attr] = get(other, r)
            st['objs'][(e, k)] = w.E[e](**kw)
            return 'ok'
        if op == 'SetRef':
            o = get(e, k)
            val = get(other, r) if r else None
            form = rng.randrange(3)
            if form == 0 or val is None:
                setattr(o, attr, val)
            elif form == 1:
                o.set(**{attr: val})
            else:
                getattr(val, 'xs' if e == 'X' else 'ys').add(o)
            return 'ok'
    except core.UnresolvableCyclicDependency:
        return 'Cyclic'
    except (core.TransactionIntegrityError, core.IntegrityError, core.CommitException) as exc:
        cause = exc
        for _ in range(4):
            if isinstance(cause, core.UnresolvableCyclicDependency):
                return 'Cyclic'
            inner = getattr(cause, 'exceptions', None)
            if inner:
                cause = inner[0][1]
            else:
                cause = getattr(cause, 'original_exc', None) or getattr(cause, '__cause__', None)
            if cause is None:
                break
        return 'Integrity'
    raise MachineryError('unknown action ' + op)


def run(ctx, nbeh, level, ids, seed):
    nodes, edges, inits, res = tlc.dump_graph('PonyCycle', cfg(level, ids), ctx.scratch, workers=4)
    succ = {}
    for s, d in edges:
        if d not in succ.setdefault(s, []):
            succ[s].append(d)
    w = World(ctx.scratch.path('db', 'cycle.sqlite'))
    rng = random.Random(seed)
    visited = set()
    found = []
    stats = {'behaviours': 0, 'cyclic_flushes': 0, 'ordered_flushes_with_new_objects': 0}
    for i in range(nbeh):
        u = rng.choice(inits)
        w.reset(norm(nodes[u]['db']))
        st = {'objs': {}}
        trace = [norm(nodes[u]['db'])]
        stats['behaviours'] += 1
        try:
            for _ in range(level + 1):
                acts = {}
                for v in succ.get(u, ()):
                    e = nodes[v]['ev']
                    acts.setdefault((e['op'], e['e'], e['k'], e['r']), []).append(v)
                if not acts:
                    break
                keys = sorted(acts)
                fresh = [k for k in keys if any((u, v) not in visited for v in acts[k])]
                key = rng.choice(fresh if fresh and rng.random() < 0.8 else keys)
                ev0 = nodes[acts[key][0]]['ev']
                try:
                    out = execute(w, st, ev0, rng)
                except MachineryError:
                    raise
                except Exception as exc:
                    import traceback
                    trace.append({'op': key[0], 'e': key[1], 'k': key[2], 'r': key[3], 'out': 'crash'})
                    found.append(('unexpected %s inside pony: %s\n%s' % (type(exc).__name__, exc, traceback.format_exc()[-1000:]), trace))
                    break
                trace.append({'op': key[0], 'e': key[1], 'k': key[2], 'r': key[3], 'out': out})
                match = [v for v in acts[key] if nodes[v]['ev']['out'] == out]
                if key[0] == 'End':
                    got, fk = w.dump()
                    match = [v for v in match if norm(nodes[v]['db']) == got]
                    if nodes[u]['new']:
                        if out == 'Cyclic':
                            stats['cyclic_flushes'] += 1
                        else:
                            stats['ordered_flushes_with_new_objects'] += 1
                    if fk:
                        found.append(('foreign_key_check after End: %r' % (fk,), trace))
                        break
                    if not match:
                        exp = [(nodes[v]['ev']['out'], norm(nodes[v]['db'])) for v in acts[key]]
                        found.append(('End: pony -> %s, database %r; the specification allows %r' % (out, got, exp), trace))
                        break
                elif not match:
                    found.append(('%s%r: pony -> %s; the specification allows %r' % (key[0], key[1:], out, [nodes[v]['ev']['out'] for v in acts[key]]), trace))
                    break
                visited.add((u, match[0]))
                u = match[0]
        finally:
            s = st.pop('s', None)
            if s is not None:
                try:
                    s.__exit__(Boom, Boom(), None)
                except Exception:
                    pass
            while core.local.db_session is not None:
                try:
                    core.local.db_session.__exit__(Boom, Boom(), None)
                except Exception:
                    core.local.db_session = None
    w.db.disconnect()
    return res, stats, found, len(set(edges)), len(visited)
