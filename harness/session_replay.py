"""--replay for the PonySession checks: re-executes a recorded behaviour on the real code."""
import random

from . import session


def replay(ctx, rep):
    shape, trace = rep['shape'], rep['trace']
    print('recorded disagreement: %s' % rep.get('what', '').split('\n')[0])
    init = trace[0]['init']
    state = {'A': {int(k): {'ex': True, 'v': v} for k, v in init['A'].items()},
             'B': {int(k): {'ex': True, 'u': ua[0], 'a': ua[1]} for k, ua in init['B'].items()},
             'L': [tuple(l) for l in init['L']]}
    for seed in range(12):
        w = session.World(shape, ctx.scratch.path('replay', 'r.sqlite'), rep.get('strategy', 'default'))
        w.reset(state)
        ad = session.Adapter(w, random.Random(seed))
        same = True
        outs = []
        try:
            if trace[0].get('open'):
                ad.do_Begin({})
            for st in trace[1:]:
                out, ret = ad.call(st)
                outs.append((st['op'], st['e'], st['k'], st['x'], st['y'], out, sorted(ret)))
                if out != st['out'] or sorted(ret) != st['ret']:
                    same = False
                    break
        except session.Mismatch as m:
            outs.append(('mismatch', m.category, m.what))
        finally:
            d = session.Driver.__new__(session.Driver)
            d.world = w
            d.cleanup()
            w.close()
        if same:
            print('reproduced with call-form seed %d:' % seed)
            for o in outs:
                print('   ', o)
            ctx.violations.append('replayed')
            return
    print('pony no longer produces the recorded outcomes for this behaviour (last attempt: %r)' % (outs[-1:],))
