"""Deterministic scheduler over the shared-cache access points of pony (C22, C05).

No source hooks: the process-wide caches of pony are looked up by attribute / module-global name at call time, so
they are replaced by `YDict` instances (dict subclasses).  Every access of a YDict made by a *worker* thread first
parks the thread at a yield point; a controller (the calling thread) decides which worker performs its pending
access next.  Exactly one thread runs at any time (the controller waits while a worker runs), so the global order of
cache accesses is exactly the order the controller chose.  Accesses made by the controller thread itself (solo runs,
warming caches) never park.

    sched = Scheduler()
    caches = install(db, sched)            # swaps the six dictionaries, returns {short name: YDict}
    sched.spawn(1, fn1); sched.spawn(2, fn2)
    sched.start()                           # every worker runs up to its first yield point
    label = sched.step(1)                   # worker 1 performs its pending access, runs to its next yield point
    sched.finish()                          # remaining workers run to completion one after the other
    uninstall(db, saved)

A yield label is (cache short name, operation class): ('tc', 'get'), ('tc', 'del'), ('tc', 'set'), ('sc', 'get'), ...
Timeouts only guard the harness (a worker that neither yields nor finishes): MachineryError.
"""
import queue
import threading

from .tlc import MachineryError

TIMEOUT = 30.0

# short names used by spec/PonyCache.tla for the caches
CACHE_NAMES = {
    'tc': 'database._translator_cache',
    'sc': 'database._constructed_sql_cache',
    'ad': 'core.adapted_sql_cache',
    's2a': 'core.string2ast_cache',
    'ext': 'asttranslation.extractors_cache',
    'ast': 'decompiling.ast_cache',
}


class Worker(object):
    def __init__(self, tid, fn):
        self.tid = tid
        self.fn = fn
        self.go = threading.Semaphore(0)
        self.pending = None        # label of the access the worker is parked before
        self.done = False
        self.result = None
        self.exc = None
        self.thread = None
        self.performed = []        # labels of the accesses performed so far


class Scheduler(object):
    def __init__(self):
        self.workers = {}
        self.parked = threading.Semaphore(0)     # released by a worker when it parks or finishes
        self.by_thread = {}
        self.trace = []                          # global order of performed accesses: (tid, label)
        self.quiet = set()                       # cache short names that do not park in this run

    # ---- worker side ---------------------------------------------------------------------------
    def yield_point(self, label):
        w = self.by_thread.get(threading.get_ident())
        if w is None or label[0] in self.quiet:
            return
        w.pending = label
        self.parked.release()
        if not w.go.acquire(timeout=TIMEOUT * 4):
            raise MachineryError('worker %s was never resumed at %r' % (w.tid, label))
        w.performed.append(label)
        self.trace.append((w.tid, label))
        w.pending = None

    def _body(self, w):
        self.by_thread[threading.get_ident()] = w
        if not w.go.acquire(timeout=TIMEOUT * 4):
            self.by_thread.pop(threading.get_ident(), None)
            return
        try:
            w.result = w.fn()
        except BaseException as e:      # the worker's own outcome; compared by the caller
            w.exc = e
        finally:
            w.done = True
            self.by_thread.pop(threading.get_ident(), None)
            self.parked.release()

    # ---- controller side -----------------------------------------------------------------------
    def spawn(self, tid, fn):
        """Worker `tid` will run fn() on the pooled OS thread of that id (threads are re-used between runs so that
        pony's per-thread connection stays open); it starts at start()."""
        w = Worker(tid, fn)
        self.workers[tid] = w
        w.thread = _pool_thread(tid)
        w.thread.tasks.put((self, w))
        return w

    def _run(self, w):
        w.go.release()
        if not self.parked.acquire(timeout=TIMEOUT):
            raise MachineryError('worker %s neither reached a yield point nor finished within %ss' % (w.tid, TIMEOUT))

    def start(self, order=None):
        """Run every worker (in tid order) up to its first yield point (or completion)."""
        for tid in (order or sorted(self.workers)):
            self._run(self.workers[tid])

    def pending(self, tid):
        w = self.workers[tid]
        return None if w.done else w.pending

    def step(self, tid):
        """Worker tid performs the access it is parked before and runs to its next yield point.
        Returns the label of the access performed, or None if the worker had already finished."""
        w = self.workers[tid]
        if w.done:
            return None
        label = w.pending
        self._run(w)
        return label

    def finish(self):
        """Let the unfinished workers run to completion, one after the other; returns the number of extra steps."""
        extra = 0
        for tid in sorted(self.workers):
            w = self.workers[tid]
            while not w.done:
                self._run(w)
                extra += 1
        return extra


class _PoolThread(threading.Thread):
    def __init__(self, tid):
        threading.Thread.__init__(self, name='W%s' % tid, daemon=True)
        self.tasks = queue.Queue()

    def run(self):
        while True:
            sched, w = self.tasks.get()
            sched._body(w)


_POOL = {}


def _pool_thread(tid):
    t = _POOL.get(tid)
    if t is None or not t.is_alive():
        t = _POOL[tid] = _PoolThread(tid)
        t.start()
    return t


class YDict(dict):
    """dict whose accesses are scheduler yield points (parking happens *before* the access)."""

    def __init__(self, name, sched, *args, **kw):
        dict.__init__(self, *args, **kw)
        self._name = name
        self._sched = sched

    def _y(self, op):
        s = self._sched
        if s is not None:
            s.yield_point((self._name, op))

    def get(self, key, default=None):
        self._y('get')
        return dict.get(self, key, default)

    def __getitem__(self, key):
        self._y('get')
        return dict.__getitem__(self, key)

    def __contains__(self, key):
        self._y('get')
        return dict.__contains__(self, key)

    def __setitem__(self, key, value):
        self._y('set')
        dict.__setitem__(self, key, value)

    def setdefault(self, key, default=None):
        self._y('set')
        return dict.setdefault(self, key, default)

    def __delitem__(self, key):
        self._y('del')
        dict.__delitem__(self, key)

    def pop(self, key, *default):
        self._y('del')
        return dict.pop(self, key, *default)


def install(db, sched):
    """Replace the six process-wide caches by YDicts; returns (ydicts by short name, saved originals)."""
    from pony.orm import core, asttranslation, decompiling
    saved = {
        'tc': db._translator_cache, 'sc': db._constructed_sql_cache, 'ad': core.adapted_sql_cache,
        's2a': core.string2ast_cache, 'ext': asttranslation.extractors_cache, 'ast': decompiling.ast_cache,
    }
    y = {name: YDict(name, sched) for name in saved}
    db._translator_cache = y['tc']
    db._constructed_sql_cache = y['sc']
    core.adapted_sql_cache = y['ad']
    core.string2ast_cache = y['s2a']
    asttranslation.extractors_cache = y['ext']
    decompiling.ast_cache = y['ast']
    return y, saved


def uninstall(db, saved):
    from pony.orm import core, asttranslation, decompiling
    db._translator_cache = saved['tc']
    db._constructed_sql_cache = saved['sc']
    core.adapted_sql_cache = saved['ad']
    core.string2ast_cache = saved['s2a']
    asttranslation.extractors_cache = saved['ext']
    decompiling.ast_cache = saved['ast']


def process_caches(db):
    """The process-wide caches named by C05/C22, as they are bound right now."""
    from pony.orm import core, asttranslation, decompiling
    return [db._translator_cache, db._constructed_sql_cache, core.adapted_sql_cache, core.string2ast_cache,
            asttranslation.extractors_cache, decompiling.ast_cache]


def clear_process_caches(db):
    for c in process_caches(db):
        dict.clear(c)
