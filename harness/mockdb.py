"""Databases bound to each provider's *real* translator/builder classes without a server.

The provider classes of postgres/mysql/oracle are imported against the import-only stubs in
harness/stubs; the connection pool is a mock-up (pony's own `pony_pool_mockup` hook), so no statement is
ever executed.  What is obtained from these databases is only what Pony itself computes: the SQL AST a
query translates to (captured at provider.ast2sql) and the SQL text / parameter adapter built from it.
"""
import os
import sys
from importlib import import_module

_stubs = os.path.join(os.path.dirname(os.path.abspath(__file__)), 'stubs')
if _stubs not in sys.path:
    sys.path.append(_stubs)      # appended: a real driver, if ever installed, wins

from pony.orm import core  # noqa: E402

DIALECTS = {'sqlite': 'SQLite', 'postgres': 'PostgreSQL', 'mysql': 'MySQL', 'oracle': 'Oracle'}
SERVER_VERSION = {'sqlite': (3, 40, 0), 'postgres': 160000, 'mysql': (10, 11, 0), 'oracle': (11, 2, 0, 2, 0)}


class _Cursor(object):
    description = []
    rowcount = 0
    def execute(self, sql, args=None): pass
    def executemany(self, sql, args=None): pass
    def fetchone(self): return None
    def fetchmany(self, size=None): return []
    def fetchall(self): return []
    def close(self): pass


class _Connection(object):
    autocommit = True
    def commit(self): pass
    def rollback(self): pass
    def cursor(self): return _Cursor()
    def close(self): pass


class _Pool(object):
    def connect(self): return _Connection(), True
    def release(self, con): pass
    def drop(self, con): pass
    def disconnect(self): pass


class MockDatabase(core.Database):
    """Database whose provider is the real provider class of `provider_name`, never connected."""

    def bind(self, provider_name, *args, **kwargs):
        self.provider_name = provider_name
        module = import_module('pony.orm.dbproviders.' + provider_name)
        provider_cls = module.provider_cls
        json1 = kwargs.pop('json1_available', True)

        class MockProvider(provider_cls):
            json1_available = json1
            def inspect_connection(provider, connection): pass
        MockProvider.server_version = SERVER_VERSION[provider_name]
        self.captured_asts = []
        kwargs['pony_pool_mockup'] = _Pool()
        if provider_name == 'sqlite' and not args:
            args = (':memory:',)
        core.Database.bind(self, MockProvider, *args, **kwargs)
        orig = self.provider.ast2sql
        def ast2sql(ast):
            self.captured_asts.append(ast)
            return orig(ast)
        self.provider.ast2sql = ast2sql

    def _exec_sql(self, sql, arguments=None, returning_id=False, start_transaction=False):
        self.last_sql = sql
        self.last_arguments = arguments
        return _Cursor()

    def generate_mapping(self, filename=None, check_tables=False, create_tables=False):
        return core.Database.generate_mapping(self, filename, create_tables=False, check_tables=False)


def make(provider_name, define, **kw):
    """define(db) declares entities; returns the mapped MockDatabase."""
    db = MockDatabase()
    define(db)
    db.bind(provider_name, **kw)
    db.generate_mapping()
    return db


def translate(db, make_query):
    """Run make_query() (returns a pony Query) inside a db_session; return (sql_ast, sql, arguments)."""
    with core.db_session:
        q = make_query()
        before = len(db.captured_asts)
        sql, arguments, attr_offsets, query_key = q._construct_sql_and_arguments()
        ast = db.captured_asts[-1] if len(db.captured_asts) > before else None
        if ast is None:
            # constructed-SQL cache hit: rebuild to obtain the AST
            t = q._translator
            ast, _ = t.construct_sql_ast(None, None, q._distinct, None, None, None, q._for_update, q._nowait, q._skip_locked)
        core.rollback()
    return ast, sql, arguments
