"""Minimal stand-in for bottle (not installed): the two exception classes pony's PonyPlugin distinguishes and the
plugin protocol (`plugin.apply(callback, route)` wraps a route callback)."""


class HTTPResponse(Exception):
    def __init__(self, body='', status=200, **kw):
        Exception.__init__(self, body)
        self.status = status


class HTTPError(HTTPResponse):
    def __init__(self, status=500, body=''):
        HTTPResponse.__init__(self, body, status)


class Bottle(object):
    def __init__(self):
        self.plugins = []

    def install(self, plugin):
        self.plugins.append(plugin)
        return plugin

    def handle(self, callback, *args, **kwargs):
        for p in reversed(self.plugins):
            callback = p.apply(callback, None)
        return callback(*args, **kwargs)
