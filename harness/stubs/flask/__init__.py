"""Minimal stand-in for Flask (not installed in the sandbox): only the callback protocol that pony.flask uses.

* `request`: an object on which attributes can be stored for the duration of a request;
* `Flask().before_request(f)` / `.teardown_request(f)`: registration;
* `Flask().handle(view)`: one request cycle as Flask runs it: before_request functions, the view, then - always - the
  teardown_request functions, which receive the unhandled exception of the view (or None).  The view's exception is
  re-raised to the caller (Flask would turn it into a 500 response)."""


class _Request(object):
    def _reset(self):
        self.__dict__.clear()


request = _Request()


class Flask(object):
    def __init__(self, name='app'):
        self.name = name
        self.before_request_funcs = []
        self.teardown_request_funcs = []

    def before_request(self, f):
        self.before_request_funcs.append(f)
        return f

    def teardown_request(self, f):
        self.teardown_request_funcs.append(f)
        return f

    def handle(self, view, *args, **kwargs):
        request._reset()
        error = None
        try:
            for f in self.before_request_funcs:
                rv = f()
                if rv is not None:
                    return rv
            return view(*args, **kwargs)
        except BaseException as e:
            error = e
            raise
        finally:
            for f in reversed(self.teardown_request_funcs):
                f(error)
