def escape_str(value, mapping=None):
    # what pymysql does under the default sql_mode
    tr = {0: '\\0', ord('\\'): '\\\\', ord('\n'): '\\n', ord('\r'): '\\r', 0x1a: '\\Z', ord('"'): '\\"', ord("'"): "\\'"}
    return "'%s'" % value.translate(tr)
conversions = {}
encoders = {}
decoders = {}
