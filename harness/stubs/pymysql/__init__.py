"""Import-only stub of pymysql (see psycopg2 stub)."""
paramstyle = 'pyformat'
apilevel = '2.0'
threadsafety = 1
class Warning(Exception): pass
class Error(Exception): pass
class InterfaceError(Error): pass
class DatabaseError(Error): pass
class DataError(DatabaseError): pass
class OperationalError(DatabaseError): pass
class IntegrityError(DatabaseError): pass
class InternalError(DatabaseError): pass
class ProgrammingError(DatabaseError): pass
class NotSupportedError(DatabaseError): pass
def connect(*args, **kwargs):
    raise OperationalError(2003, 'pymysql stub: no server')
from . import converters, constants
