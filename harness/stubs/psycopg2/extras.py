def register_uuid(*a, **k): pass
def register_default_json(*a, **k): pass
def register_default_jsonb(*a, **k): pass
class Json(object):
    def __init__(self, adapted, dumps=None): self.adapted = adapted
