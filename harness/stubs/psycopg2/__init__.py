"""Import-only stub of psycopg2 so that pony.orm.dbproviders.postgres can be imported and its
Pony-side code (translator, builder, converters, set_transaction_mode) executed against fake
connections. It never stands in for a server."""
paramstyle = 'pyformat'
apilevel = '2.0'
threadsafety = 2
__version__ = '2.9.9 (stub)'
class Warning(Exception): pass
class Error(Exception): pass
class InterfaceError(Error): pass
class DatabaseError(Error): pass
class DataError(DatabaseError): pass
class OperationalError(DatabaseError): pass
class IntegrityError(DatabaseError): pass
class InternalError(DatabaseError): pass
class ProgrammingError(DatabaseError): pass
class NotSupportedError(DatabaseError): pass
def connect(*args, **kwargs):
    raise OperationalError('psycopg2 stub: no server')
def Binary(x): return bytes(x)
from . import extensions, extras
