ISOLATION_LEVEL_AUTOCOMMIT = 0
ISOLATION_LEVEL_READ_COMMITTED = 1
ISOLATION_LEVEL_REPEATABLE_READ = 2
ISOLATION_LEVEL_SERIALIZABLE = 3
def register_type(*a, **k): pass
def register_adapter(*a, **k): pass
def new_type(*a, **k): return None
UNICODE = UNICODEARRAY = None
class cursor(object): pass
class connection(object): pass
