"""Import-only stub of cx_Oracle (see psycopg2 stub)."""
paramstyle = 'named'
apilevel = '2.0'
threadsafety = 2
class Warning(Exception): pass
class Error(Exception): pass
class InterfaceError(Error): pass
class DatabaseError(Error): pass
class DataError(DatabaseError): pass
class OperationalError(DatabaseError): pass
class IntegrityError(DatabaseError): pass
class InternalError(DatabaseError): pass
class ProgrammingError(DatabaseError): pass
class NotSupportedError(DatabaseError): pass
class LOB(object): pass
NUMBER = 'NUMBER'; STRING = 'STRING'; FIXED_CHAR = 'FIXED_CHAR'; TIMESTAMP = 'TIMESTAMP'; CLOB = 'CLOB'; BLOB = 'BLOB'
DATETIME = 'DATETIME'; INTERVAL = 'INTERVAL'; NCHAR = 'NCHAR'; NCLOB = 'NCLOB'; LONG_STRING = 'LONG_STRING'
SPOOL_ATTRVAL_NOWAIT = 1
class SessionPool(object):
    def __init__(self, **kw): raise OperationalError('cx_Oracle stub: no server')
def makedsn(*a, **k): return 'dsn'
