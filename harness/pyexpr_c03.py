"""Python side of spec/PyExpr.tla (shared by the C03 and C04 checks).

* trees (the JSON form of the TLA+ encoding, see the module comment of PyExpr.tla) -> fully parenthesised
  source text (`to_src`) and -> `ast` objects (`to_ast`); the two are cross-checked against CPython's parser
  (`ast.dump(to_ast(t)) == ast.dump(ast.parse(to_src(t)))`), so neither can introduce a precedence error;
* Python values <-> the compact value form of the exported tables (`norm`), the objects R1/R2 and the
  functions `mk`/`len` the spec's environments contain;
* `tables(...)`: runs TLC on PyExprTables (several partitions of the expression space in parallel) and returns
  the rows `{e, k, tab}`.  TLC output depends only on the spec text and the input, so it is cached under
  /verif/.cache keyed by their hash (DESIGN section 8); everything touching pony is recomputed on every run.
"""
import ast
import concurrent.futures
import hashlib
import itertools
import json
import os
import warnings

from . import tlc
from .tlc import MachineryError

ROOT = os.path.dirname(os.path.dirname(os.path.abspath(__file__)))
CACHE_DIR = os.path.join(ROOT, '.cache')
WORKERS = int(os.environ.get('VERIF_WORKERS') or 4)

warnings.filterwarnings('ignore', category=SyntaxWarning)
warnings.filterwarnings('ignore', category=DeprecationWarning)


# -- values ----------------------------------------------------------------------------------------------------------
class Obj(object):
    """Record-like object of the spec (PyExpr.ObjAttrs): identity equality, repr = its name."""

    def __init__(self, name):
        self._name = name

    def __repr__(self):
        return self._name


R1, R2 = Obj('R1'), Obj('R2')
R1.p, R1.q = 7, R2
R2.p, R2.q = 'ab', None
OBJS = {'R1': R1, 'R2': R2}


def mk(x, y=0, k=None):
    return (x, y, k)


def val_from_json(v):
    """Tagged value record of the spec -> Python value."""
    t = v['t']
    if t == 'none':
        return None
    if t in ('bool', 'int'):
        return v['v']
    if t == 'str':
        return ''.join(v['v'])
    if t == 'tup':
        return tuple(val_from_json(x) for x in v['v'])
    if t == 'obj':
        return OBJS[v['v']]
    raise MachineryError('unexpected constant %r' % (v,))


def val_to_json(x):
    if x is None:
        return {'t': 'none'}
    if isinstance(x, bool):
        return {'t': 'bool', 'v': x}
    if isinstance(x, int):
        return {'t': 'int', 'v': x}
    if isinstance(x, str):
        return {'t': 'str', 'v': list(x)}
    if isinstance(x, tuple):
        return {'t': 'tup', 'v': [val_to_json(i) for i in x]}
    if isinstance(x, Obj):
        return {'t': 'obj', 'v': x._name}
    raise MachineryError('no spec value for %r' % (x,))


VALUE_SETS = {
    'six': [None, False, True, 0, 1, 2],
    'mixed': [None, 1, 2, 'ab', ('b', 2), R1],
}


def norm(x):
    """Python value -> the compact form PyExpr.Out produces (lists where TLC writes tuples)."""
    if x is None:
        return 'N'
    if isinstance(x, bool):
        return x
    if isinstance(x, int):
        return x
    if isinstance(x, str):
        return ['s'] + list(x)
    if isinstance(x, tuple):
        return ['t'] + [norm(i) for i in x]
    if isinstance(x, Obj):
        return ['o', x._name]
    if callable(x):
        return 'F'
    return ['?', type(x).__name__, repr(x)[:40]]


def outcome(thunk):
    """Evaluate; value in compact form or ['e', exception class name]."""
    try:
        return norm(thunk())
    except RecursionError:
        raise
    except Exception as e:
        return ['e', type(e).__name__]


def same(g, e):
    """Type-strict equality of two values in compact form (True is not 1)."""
    if g is e:
        return True
    if type(g) is not type(e):
        return False
    if type(g) is list:
        return len(g) == len(e) and all(same(x, y) for x, y in zip(g, e))
    if type(g) is dict:
        return g.keys() == e.keys() and all(same(g[k], e[k]) for k in g)
    return g == e


def first_diff(got, exp):
    """Index of the first point where two tables differ (points the model leaves undefined are skipped); None if equal.
    `got` may be a string describing why no table could be computed."""
    if isinstance(got, str):
        return 0
    for i, (g, e) in enumerate(zip(got, exp)):
        if g is e:
            continue
        if e != 'U' and not same(g, e):
            return i
    return None


def show(v):
    """Compact form -> readable text."""
    if v == 'N':
        return 'None'
    if v == 'U':
        return '<undefined in the model>'
    if v == 'F':
        return '<function>'
    if isinstance(v, list):
        if v[0] == 's':
            return repr(''.join(v[1:]))
        if v[0] == 't':
            return '(' + ', '.join(show(i) for i in v[1:]) + (',)' if len(v) == 2 else ')')
        if v[0] == 'o':
            return v[1]
        if v[0] == 'e':
            return 'raises ' + v[1]
    return repr(v)


class TooBig(Exception):
    """Raised by the guarded evaluation instead of computing an astronomically large int/str (the model says `undef` there)."""


def _g_pow(a, b):
    if isinstance(a, int) and isinstance(b, int) and b > 64 and abs(a) > 1:
        raise TooBig()
    return a ** b


def _g_lshift(a, b):
    if isinstance(a, int) and isinstance(b, int) and b > 4096:
        raise TooBig()
    return a << b


def _g_mult(a, b):
    if isinstance(a, int) and isinstance(b, int):
        if a.bit_length() + b.bit_length() > 100000:
            raise TooBig()
    elif isinstance(a, (str, tuple)) and isinstance(b, int) and len(a) * b > 100000:
        raise TooBig()
    elif isinstance(b, (str, tuple)) and isinstance(a, int) and len(b) * a > 100000:
        raise TooBig()
    return a * b


_GUARDS = {ast.Pow: '__g_pow', ast.LShift: '__g_lshift', ast.Mult: '__g_mult'}


class _Guard(ast.NodeTransformer):
    """a ** b, a << b, a * b -> calls of the guarded helpers (same operands, same order, same result unless astronomically large)."""

    def visit_BinOp(self, node):
        self.generic_visit(node)
        name = _GUARDS.get(type(node.op))
        if name is None:
            return node
        return ast.Call(func=ast.Name(id=name, ctx=ast.Load()), args=[node.left, node.right], keywords=[])


def base_globals():
    return {'mk': mk, '__g_pow': _g_pow, '__g_lshift': _g_lshift, '__g_mult': _g_mult, '__builtins__': {'len': len}}


def envs(names, k, valset):
    """All environments over the first k names, in the order of PyExprTables.EnvAt (itertools.product)."""
    vs = VALUE_SETS[valset]
    ns = names[:k]
    return [dict(zip(ns, combo)) for combo in itertools.product(vs, repeat=k)]


# -- trees -> source ---------------------------------------------------------------------------------------------------
UN_SRC = {'Not': 'not ', 'USub': '-', 'UAdd': '+', 'Invert': '~'}
BIN_SRC = {'Add': '+', 'Sub': '-', 'Mult': '*', 'FloorDiv': '//', 'Mod': '%', 'Pow': '**', 'LShift': '<<', 'RShift': '>>',
           'BitOr': '|', 'BitXor': '^', 'BitAnd': '&'}
CMP_SRC = {'Eq': '==', 'NotEq': '!=', 'Lt': '<', 'LtE': '<=', 'Gt': '>', 'GtE': '>=', 'Is': 'is', 'IsNot': 'is not',
           'In': 'in', 'NotIn': 'not in'}


def const_src(x):
    if isinstance(x, tuple):
        return '(' + ', '.join(const_src(i) for i in x) + (',)' if len(x) == 1 else ')')
    if isinstance(x, bool) or x is None:
        return repr(x)
    if isinstance(x, int):
        return repr(x) if x >= 0 else '(%r)' % x
    if isinstance(x, str):
        return repr(x)
    raise MachineryError('cannot render the constant %r' % (x,))


def to_src(e):
    """Fully parenthesised source text of a tree."""
    k = e[0]
    if k == 'Name':
        return e[1]
    if k == 'Const':
        return const_src(val_from_json(e[1]))
    if k == 'Un':
        return '(%s%s)' % (UN_SRC[e[1]], to_src(e[2]))
    if k == 'Bin':
        return '(%s %s %s)' % (to_src(e[2]), BIN_SRC[e[1]], to_src(e[3]))
    if k == 'Bool':
        return '(' + (' and ' if e[1] == 'And' else ' or ').join(to_src(x) for x in e[2]) + ')'
    if k == 'Cmp':
        s = to_src(e[1])
        for op, x in zip(e[2], e[3]):
            s += ' %s %s' % (CMP_SRC[op], to_src(x))
        return '(' + s + ')'
    if k == 'IfExp':
        return '(%s if %s else %s)' % (to_src(e[2]), to_src(e[1]), to_src(e[3]))
    if k == 'Attr':
        return '(%s).%s' % (to_src(e[1]), e[2])
    if k == 'Sub':
        return '(%s)[%s]' % (to_src(e[1]), to_src(e[2]))
    if k == 'Slice':
        lo = '' if e[2][0] == 'Omit' else to_src(e[2])
        hi = '' if e[3][0] == 'Omit' else to_src(e[3])
        return '(%s)[%s:%s]' % (to_src(e[1]), lo, hi)
    if k == 'Tuple':
        return '(' + ', '.join(to_src(x) for x in e[1]) + (',)' if len(e[1]) == 1 else ')')
    if k == 'Call':
        args = [to_src(x) for x in e[2]] + ['%s=%s' % (kw[0], to_src(kw[1])) for kw in e[3]]
        return '(%s)(%s)' % (to_src(e[1]), ', '.join(args))
    if k == 'Lambda':
        params, defaults = list(e[1]), e[2]
        nd = len(defaults)
        ps = params[:len(params) - nd] + ['%s=%s' % (p, to_src(d)) for p, d in zip(params[len(params) - nd:], defaults)]
        return '(lambda %s: %s)' % (', '.join(ps), to_src(e[3]))
    if k == 'FStr':
        return 'f' + _quote(_parts_src(e[1]))
    if k == 'Gen':
        return gen_src(e)
    raise MachineryError('unknown tree node %r' % (e,))


def _quote(body):
    return "'" + body + "'"


def _parts_src(parts):
    out = []
    for p in parts:
        if p[0] == 'Lit':
            for ch in p[1]:
                if ch in '\'"\\\n':
                    raise MachineryError('literal character %r not supported by the renderer' % ch)
                out.append({'{': '{{', '}': '}}'}.get(ch, ch))
        else:
            s = '{(' + to_src(p[1]) + ')'
            if p[2]:
                s += '!' + p[2]
            if p[3]:
                s += ':' + _parts_src(p[3])
            out.append(s + '}')
    return ''.join(out)


def gen_src(g):
    s = '(' + to_src(g[1])
    for target, it, ifs in g[2]:
        s += ' for %s in %s' % (target, to_src(it))
        for c in ifs:
            s += ' if ' + to_src(c)
    return s + ')'


# -- trees -> ast ------------------------------------------------------------------------------------------------------
UN_AST = {'Not': ast.Not, 'USub': ast.USub, 'UAdd': ast.UAdd, 'Invert': ast.Invert}
BIN_AST = {'Add': ast.Add, 'Sub': ast.Sub, 'Mult': ast.Mult, 'FloorDiv': ast.FloorDiv, 'Mod': ast.Mod, 'Pow': ast.Pow,
           'LShift': ast.LShift, 'RShift': ast.RShift, 'BitOr': ast.BitOr, 'BitXor': ast.BitXor, 'BitAnd': ast.BitAnd}
CMP_AST = {'Eq': ast.Eq, 'NotEq': ast.NotEq, 'Lt': ast.Lt, 'LtE': ast.LtE, 'Gt': ast.Gt, 'GtE': ast.GtE, 'Is': ast.Is,
           'IsNot': ast.IsNot, 'In': ast.In, 'NotIn': ast.NotIn}


def _const_ast(x):
    if isinstance(x, tuple):
        return ast.Tuple(elts=[_const_ast(i) for i in x], ctx=ast.Load())
    if isinstance(x, int) and not isinstance(x, bool) and x < 0:
        return ast.UnaryOp(op=ast.USub(), operand=ast.Constant(value=-x))
    return ast.Constant(value=x)


def to_ast(e):
    """The `ast` object CPython's parser builds for the tree (checked against ast.parse by `check_renderers`)."""
    k = e[0]
    if k == 'Name':
        return ast.Name(id=e[1], ctx=ast.Load())
    if k == 'Const':
        return _const_ast(val_from_json(e[1]))
    if k == 'Un':
        return ast.UnaryOp(op=UN_AST[e[1]](), operand=to_ast(e[2]))
    if k == 'Bin':
        return ast.BinOp(left=to_ast(e[2]), op=BIN_AST[e[1]](), right=to_ast(e[3]))
    if k == 'Bool':
        return ast.BoolOp(op=(ast.And if e[1] == 'And' else ast.Or)(), values=[to_ast(x) for x in e[2]])
    if k == 'Cmp':
        return ast.Compare(left=to_ast(e[1]), ops=[CMP_AST[o]() for o in e[2]], comparators=[to_ast(x) for x in e[3]])
    if k == 'IfExp':
        return ast.IfExp(test=to_ast(e[1]), body=to_ast(e[2]), orelse=to_ast(e[3]))
    if k == 'Attr':
        return ast.Attribute(value=to_ast(e[1]), attr=e[2], ctx=ast.Load())
    if k == 'Sub':
        return ast.Subscript(value=to_ast(e[1]), slice=to_ast(e[2]), ctx=ast.Load())
    if k == 'Slice':
        lo = None if e[2][0] == 'Omit' else to_ast(e[2])
        hi = None if e[3][0] == 'Omit' else to_ast(e[3])
        return ast.Subscript(value=to_ast(e[1]), slice=ast.Slice(lower=lo, upper=hi, step=None), ctx=ast.Load())
    if k == 'Tuple':
        return ast.Tuple(elts=[to_ast(x) for x in e[1]], ctx=ast.Load())
    if k == 'Call':
        return ast.Call(func=to_ast(e[1]), args=[to_ast(x) for x in e[2]],
                        keywords=[ast.keyword(arg=kw[0], value=to_ast(kw[1])) for kw in e[3]])
    if k == 'Lambda':
        args = ast.arguments(posonlyargs=[], args=[ast.arg(arg=p) for p in e[1]], vararg=None, kwonlyargs=[], kw_defaults=[],
                             kwarg=None, defaults=[to_ast(d) for d in e[2]])
        return ast.Lambda(args=args, body=to_ast(e[3]))
    if k == 'FStr':
        return ast.JoinedStr(values=_parts_ast(e[1]))
    if k == 'Gen':
        return ast.GeneratorExp(elt=to_ast(e[1]), generators=[
            ast.comprehension(target=ast.Name(id=t, ctx=ast.Store()), iter=to_ast(it), ifs=[to_ast(c) for c in ifs], is_async=0)
            for t, it, ifs in e[2]])
    raise MachineryError('unknown tree node %r' % (e,))


def _parts_ast(parts):
    out = []
    for p in parts:
        if p[0] == 'Lit':
            text = ''.join(p[1])
            if out and isinstance(out[-1], ast.Constant):
                out[-1] = ast.Constant(value=out[-1].value + text)
            else:
                out.append(ast.Constant(value=text))
        else:
            spec = ast.JoinedStr(values=_parts_ast(p[3])) if p[3] else None
            out.append(ast.FormattedValue(value=to_ast(p[1]), conversion=ord(p[2]) if p[2] else -1, format_spec=spec))
    return out


def check_renderers(tree):
    """Self-check of the harness's two renderings against CPython's parser."""
    src = to_src(tree)
    try:
        parsed = ast.parse(src, mode='eval').body
    except SyntaxError as e:
        raise MachineryError('rendered source does not parse: %r (%s)' % (src, e))
    for node in ast.walk(parsed):      # 3.12's parser leaves an empty Constant after a nested replacement field in a format spec
        if isinstance(node, ast.JoinedStr):
            node.values = [v for v in node.values if not (isinstance(v, ast.Constant) and v.value == '')]
    a, b = ast.dump(to_ast(tree)), ast.dump(parsed)
    if a != b:
        raise MachineryError('to_ast and ast.parse(to_src) disagree on %r:\n%s\n%s' % (src, a, b))
    return src


def compile_expr(node, filename='<verif>'):
    """Compile an `ast` expression object (a private copy is expected: it is modified) to a code object whose evaluation is guarded
    against astronomically large results (TooBig is raised instead)."""
    compile(ast.fix_missing_locations(ast.Expression(body=node)), filename, 'eval')      # the object as given must be a valid expression
    e = ast.Expression(body=_Guard().visit(node))
    ast.fix_missing_locations(e)
    return compile(e, filename, 'eval')


def compile_src(src, filename='<verif>'):
    """Compile source text to a guarded code object."""
    return compile_expr(ast.parse(src, mode='eval').body, filename)


# -- tables from TLC -----------------------------------------------------------------------------------------------------
def _spec_hash():
    h = hashlib.sha256()
    for name in ('PyExpr.tla', 'PyExprTables.tla'):
        with open(os.path.join(tlc.SPEC_DIR, name), 'rb') as f:
            h.update(f.read())
    return h


def _evaluate_cached(scratch, inp, tag, stats):
    h = _spec_hash()
    h.update(json.dumps(inp, sort_keys=True).encode())
    path = os.path.join(CACHE_DIR, 'pyexpr-%s.json' % h.hexdigest()[:32])
    if os.path.exists(path) and not os.environ.get('VERIF_NOCACHE'):
        try:
            with open(path) as f:
                rows = json.load(f)
            stats['tlc_cache_hits'] = stats.get('tlc_cache_hits', 0) + 1
            return rows
        except ValueError:
            pass
    out, res = tlc.evaluate('PyExprTables', scratch, inputs=inp, tag=tag)
    rows = out['rows']
    stats['tlc_runs'] = stats.get('tlc_runs', 0) + 1
    stats['tlc_cpu_s'] = round(stats.get('tlc_cpu_s', 0) + res.wall, 1)
    try:
        os.makedirs(CACHE_DIR, exist_ok=True)
        tmp = path + '.%d.tmp' % os.getpid()
        with open(tmp, 'w') as f:
            json.dump(rows, f)
        os.replace(tmp, path)
    except OSError:
        pass
    return rows


def run_jobs(scratch, jobs, stats, workers=None):
    """jobs: list of (tag, input dict); yields the row list of each job as it becomes available (in job order), computed by up
    to `workers` TLC processes at a time."""
    with concurrent.futures.ThreadPoolExecutor(max_workers=workers or WORKERS) as ex:
        futs = [ex.submit(_evaluate_cached, scratch, inp, tag, stats) for tag, inp in jobs]
        for f in futs:
            yield f.result()


def alphabet(scratch, alpha, stats):
    """The named alphabet of the spec: {'un': [...], 'bin': [...], 'ter': [...], 'names': [...], ...}."""
    return _evaluate_cached(scratch, {'mode': 'count', 'alpha': alpha, 'n': 0, 'distinct': False, 'gn': -1}, 'kinds-' + alpha, stats)[0]


def space_size(scratch, alpha, n, stats, gens=False, distinct=False):
    """Size of ExprSeq(alpha, n) / GenShellSeq(alpha, n) as TLC counts it."""
    r = _evaluate_cached(scratch, {'mode': 'count', 'alpha': alpha, 'n': 0 if gens else n, 'distinct': distinct, 'gn': n if gens else -1},
                         'count-%s-%d' % (alpha, n), stats)[0]
    return r


def exprs_jobs(alpha, n, vals, parts):
    """Rows {e, k, tab} for every tree of ExprSeq(alpha, n) under the value set `vals`, split over `parts` TLC processes
    (each enumerates the space and evaluates its slice)."""
    return [('%s-%d-p%d' % (alpha, n, i), {'mode': 'exprs', 'alpha': alpha, 'n': n, 'vals': vals, 'part': i, 'parts': parts})
            for i in range(1, parts + 1)]


def gens_jobs(alpha, n, vals, parts):
    """Rows {g, elt, conds, runs} for every generator shell of GenShellSeq(alpha, n)."""
    return [('gens-%s-%d-p%d' % (alpha, n, i), {'mode': 'gens', 'alpha': alpha, 'n': n, 'vals': vals, 'part': i, 'parts': parts})
            for i in range(1, parts + 1)]


def eltgens_jobs(alpha, n, vals, parts):
    """Rows {g, elt, conds, runs} for (<elt> for x in T), elt ranging over ExprSeq(alpha, n)."""
    return [('eltgens-%s-%d-p%d' % (alpha, n, i), {'mode': 'eltgens', 'alpha': alpha, 'n': n, 'vals': vals, 'part': i, 'parts': parts})
            for i in range(1, parts + 1)]


def derivs_jobs(alpha, derivs, vals, gens=False, chunk=500):
    """Rows for trees given as derivations over the spec's alphabet (seeded random larger trees)."""
    return [('derivs-%s-%d' % (alpha, i), {'mode': 'genderivs' if gens else 'derivs', 'alpha': alpha, 'vals': vals, 'derivs': derivs[i:i + chunk]})
            for i in range(0, len(derivs), chunk)]


def trees_rows(scratch, trees, names, vals, stats, gens=False):
    """Rows for explicitly given trees (replay)."""
    inp = {'mode': 'gentrees' if gens else 'trees', 'trees': trees, 'names': list(names), 'vals': vals}
    return _evaluate_cached(scratch, inp, 'trees', stats)


def random_deriv(rng, A, size, nconsts=0):
    """A random derivation with exactly `size` operator nodes over the alphabet A (kinds by arity)."""
    if size == 0:
        if nconsts and rng.random() < 0.25:
            return ['C', rng.randrange(1, nconsts + 1)]
        return ['L']
    arities = [a for a, ks in ((1, A['un']), (2, A['bin']), (3, A['ter'])) if ks]
    ar = rng.choice(arities)
    kind = rng.choice({1: A['un'], 2: A['bin'], 3: A['ter']}[ar])
    rest = size - 1
    cuts = sorted(rng.randrange(0, rest + 1) for _ in range(ar - 1))
    sizes = [b - a for a, b in zip([0] + cuts, cuts + [rest])]
    return [kind] + [random_deriv(rng, A, sz, nconsts) for sz in sizes]
