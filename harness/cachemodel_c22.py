"""Shared by C22 and C05: configurations of spec/PonyCache.tla, reading the behaviours TLC exports, and the
binding of the spec's abstract alphabet (query ids, parameters, session operations, cross-thread uses) to real pony
calls on a real SQLite database.  No oracle lives here: what is required comes from the `req` terms TLC exports."""
import json
import os
import sqlite3
from datetime import date
from decimal import Decimal

from . import tlc, tlaval
from .tlc import MachineryError
from pony.orm import core
from pony.orm.core import Database, Required, Optional, Set, db_session, select, desc

MODULE = 'PonyCache'

ASIS = dict(DelPop='FALSE', AggrFlushFirst='FALSE', AdaptKeyOriginal='FALSE')
FIXED = dict(DelPop='TRUE', AggrFlushFirst='TRUE', AdaptKeyOriginal='TRUE')
INVARIANTS = ['TypeOK', 'NoSpuriousError', 'RightTranslator', 'Transparent', 'ForeignUseRaises']

_DEFAULTS = dict(NThreads=1, Fams='{}', SessOps='{}', XUses='{}', WarmSet='<-WarmCold', MinLen=1, MaxLen=1, MaxExec=4, MaxMod=2,
                 MemoSteps='FALSE', ParamStyles='{"qmark"}', KeyHasTypes='TRUE', CompareFixed='TRUE', CompareEarlier='TRUE',
                 SqlKeyHasFixed='TRUE',
                 FlushClearsResults='TRUE', Export='FALSE')


def strset(items):
    return '{' + ', '.join('"%s"' % i for i in items) + '}'


def cfg(inv=INVARIANTS, view=True, **kw):
    """cfg text for PonyCache; values starting with '<-' are substitutions by an operator of the module."""
    d = dict(_DEFAULTS)
    d.update(ASIS)
    d.update(kw)
    lines = ['INIT Init', 'NEXT Next', 'CHECK_DEADLOCK FALSE', 'CONSTANTS']
    for k, v in d.items():
        v = str(v)
        lines.append(' %s %s' % (k, '<- ' + v[2:] if v.startswith('<-') else '= ' + v))
    if inv:
        lines.append('INVARIANTS ' + ' '.join(inv))
    if view:
        lines.append('VIEW CheckView')
    return '\n'.join(lines) + '\n'


def parse_export(stdout):
    """Behaviours printed by the ExportDone 'invariant': one JSON document per terminal state."""
    out = []
    for line in stdout.splitlines():
        if line.startswith('<<"PCX", "') and line.endswith('">>'):
            out.append(json.loads(json.loads(line[9:-2])))
    return out


def export(scratch, *, simulate=None, seed=0, workers=4, tag=None, inv=(), **kw):
    """All behaviours of the configuration (or `simulate`=(num, depth) random ones), as dicts prog/warm/sched/obs.
    `inv`: invariants checked in the same run (on the export state space, where `sched` is part of the state)."""
    args = []
    if simulate:
        num, depth = simulate
        args = ['-simulate', 'num=%d' % num, '-depth', str(depth), '-seed', str(seed)]
        workers = 1
    res = tlc.run(MODULE, cfg(inv=list(inv) + ['ExportDone'], view=False, Export='TRUE', **kw), scratch, workers=workers,
                  args=args, must_succeed=False, tag=tag or 'export')
    if res.errors or res.violated or (not simulate and not res.ok):
        raise MachineryError('TLC %s run of PonyCache failed:\n%s' % ('check+export' if inv else 'export', tlc._tail(res.stdout, 60)))
    behs = parse_export(res.stdout)
    if simulate:
        seen, uniq = set(), []
        for b in behs:
            k = beh_key(b)
            if k not in seen:
                seen.add(k)
                uniq.append(b)
        behs = uniq
    return behs, res


def check(scratch, *, workers=4, tag=None, coverage=False, **kw):
    """Exhaustive check of the invariants on the configuration; MachineryError if TLC refutes them."""
    return tlc.model_check(MODULE, cfg(**kw), scratch, workers=workers, tag=tag or 'check', coverage=coverage)


def refute(scratch, expected, *, workers=4, tag=None, **kw):
    """TLC must refute invariant `expected` on this configuration (as-is model of a known defect, or a seeded design
    error).  Returns (TlcResult, counterexample schedule as text lines)."""
    res = tlc.run(MODULE, cfg(**kw), scratch, workers=workers, must_succeed=False, tag=tag or 'refute')
    if expected not in res.violated:
        raise MachineryError('TLC was expected to refute %s on PonyCache with %r but reported %r\n%s' % (
            expected, kw, res.violated, tlc._tail(res.stdout, 30)))
    steps = [l.split(' line ')[0].split('<', 1)[1] for l in res.stdout.splitlines() if l.startswith('State ') and '<' in l
             and 'Initial predicate' not in l]
    try:        # the programs (history) of the counterexample, from its initial state
        first = res.stdout.split('State 1: <Initial predicate>', 1)[1].split('State 2:', 1)[0]
        st = tlaval.parse_state(first)
        progs = [['%s(%s)' % (o['q'], o['p']['v']) if o['op'] == 'exec' else o['q'] for o in pr] for pr in st['prog']]
        steps = ['programs: ' + ' || '.join('; '.join(pr) for pr in progs)] + steps
    except (IndexError, KeyError, ValueError, TypeError):
        pass
    return res, steps


def beh_key(b):
    return json.dumps([b['prog'], b['warm'], [(s['t'], s['c'], s['o']) for s in b['sched']]], sort_keys=True)


def trace_key(prog, warm, trace):
    return json.dumps([prog, warm, [(t, c, o) for t, (c, o) in trace]], sort_keys=True)


def term_key(term):
    return json.dumps(term, sort_keys=True)


# ------------------------------------------------------------------------------------------------
# the real database

ROWS_T = [(1, 'abcdef', 'xy', 1, 'B1', '2021-06-01', '10.25'), (2, 'ghijkl', 'zw', 2, 'B2', '2020-02-29', '26.25'),
          (3, 'mnopqr', 'xy', None, 'B3', None, None)]
ROWS_K = [(1, 2, 'k1'), (2, None, 'k2')]
ROWS_G = [(1, 'g1'), (2, 'g2'), (3, 'g3')]
LINKS = [(1, 1), (2, 1), (2, 2)]          # (T, G)


def define(db):
    class T(db.Entity):
        name = Required(str)
        tag = Optional(str)
        n = Optional(int)
        big = Optional(str, lazy=True)
        d = Optional(date)
        amount = Optional(Decimal, precision=10, scale=2)
        kids = Set('K')
        groups = Set('G')

    class K(db.Entity):
        t = Optional(T)
        label = Optional(str)

    class G(db.Entity):
        label = Optional(str)
        members = Set(T)


class RealDb(object):
    """A file-backed SQLite database with the entities above and fixed initial rows."""

    def __init__(self, scratch, name):
        self.path = scratch.path('db', name + '.sqlite')
        if os.path.exists(self.path):
            os.unlink(self.path)
        self.db = Database()
        define(self.db)
        self.db.bind('sqlite', self.path, create_db=True)
        self.db.generate_mapping(create_tables=True)
        self.raw = sqlite3.connect(self.path, isolation_level=None, check_same_thread=False)
        self.link = self.db.T.groups.table
        self.link_cols = (self.db.G.members.columns[0], self.db.T.groups.columns[0])      # (column of T, column of G)
        self.restore()

    def restore(self):
        c = self.raw
        c.execute('BEGIN IMMEDIATE')
        c.execute('DELETE FROM "%s"' % self.link)
        c.execute('DELETE FROM K')
        c.execute('DELETE FROM G')
        c.execute('DELETE FROM T')
        c.executemany('INSERT INTO T (id, name, tag, n, big, d, amount) VALUES (?, ?, ?, ?, ?, ?, ?)', ROWS_T)
        c.executemany('INSERT INTO K (id, t, label) VALUES (?, ?, ?)', ROWS_K)
        c.executemany('INSERT INTO G (id, label) VALUES (?, ?)', ROWS_G)
        c.executemany('INSERT INTO "%s" ("%s", "%s") VALUES (?, ?)' % ((self.link,) + self.link_cols), LINKS)
        c.execute('COMMIT')

    def close(self):
        self.raw.close()
        self.db.disconnect()


# ------------------------------------------------------------------------------------------------
# the alphabet, bound to real calls.  Every ORM query is one code object / one string, re-used with different values.

def decode(p):
    if p['t'] == 'int':
        return int(p['v'])
    if p['t'] == 'none':
        return None
    return p['v']


# base queries that chains extend: one generator code object each, shared by the plain query and all its chains
def _b_slice(T, p):
    return select(x.name[:p] for x in T)


def _b_getattr(T, p):
    return select(getattr(x, p) for x in T)


def _b_idx(T, p):
    return select(x.name[p] for x in T)


def _b_gt(T, p):
    return select(x.name for x in T if x.n > p)


def _q_slice(T, p):
    return _b_slice(T, p)[:]


def _q_getattr(T, p):
    return _b_getattr(T, p)[:]


def _q_idx(T, p):
    return _b_idx(T, p)[:]


def _q_cmp(T, p):
    return select(x.name for x in T if x.n == p)[:]


def _q_gt(T, p):
    return _b_gt(T, p)[:]


# the lambdas of the chained steps (spec/PonyCacheQueries.tla: StepTable), one code object each
def _s_f(q, p):
    return q.filter(lambda v: v != 'zzz')


def _s_w(q, p):
    return q.where(lambda x: x.n is not None)


def _s_o(q, p):
    return q.order_by(lambda v: desc(v))


def _s_wp(q, p):
    return q.where(lambda x: x.id != p)


def _s_fs(q, p):
    return q.filter(lambda v: v[p:] != 'hijkl')


def _q_count(T, p):
    return select(x for x in T if x.n > p).count()


def _q_m2m(T, p):
    return select(x.name for x in T for g in x.groups if g.id >= p)[:]


def _q_mcount(T, p):
    return select(x for x in T for g in x.groups if g.id >= p).count()


def _q_maxdate(T, p):
    return select(x.d for x in T if x.n >= p).max()


def _q_sumdec(T, p):
    return select(x.amount for x in T if x.n >= p).sum()


def _q_dyn(T, p):
    # a code object compiled at run time and dropped after the execution; the value is part of its text
    f = eval('lambda x: x.n > %d' % p)
    return [o.name for o in T.select(f)]


STRQ = "x.name for x in T if x.n > p"
RAW = {'raw_where': "select name from T where n > $p", 'raw_pct': "select 7 % 4, $p", 'raw_pct2': "select 7 %% 4, $p"}
BASES = {'slice': _b_slice, 'getattr': _b_getattr, 'idx': _b_idx, 'gt': _b_gt}
STEPS = {'f': ('filter', _s_f), 'w': ('where', _s_w), 'o': ('order_by', _s_o), 'wp': ('where', _s_wp), 'fs': ('filter', _s_fs)}
CHAINS = {}         # query id -> its entry of the spec's table, see load_chains
ORM = {'slice': _q_slice, 'getattr': _q_getattr, 'idx': _q_idx, 'cmp': _q_cmp, 'gt': _q_gt, 'count': _q_count, 'm2m': _q_m2m,
       'mcount': _q_mcount, 'maxdate': _q_maxdate, 'sumdec': _q_sumdec, 'dyn': _q_dyn}


def load_chains(scratch):
    """The structure of the query chains, from the specification (PonyCacheQueriesTables): which base query, which
    lambdas in which order.  The harness only supplies one Python code object per base / lambda."""
    if CHAINS:
        return CHAINS
    table, _ = tlc.evaluate('PonyCacheQueriesTables', scratch)
    for c in table['chains']:
        steps = c['steps']
        if steps[0]['code'] not in BASES:
            raise MachineryError('chain %s of the specification starts with %s, which the harness cannot extend' % (
                c['query'], steps[0]['code']))
        for st in steps[1:]:
            if st['code'] not in STEPS or STEPS[st['code']][0] != st['kind']:
                raise MachineryError('step %s (%s) of chain %s of the specification is not bound in the harness' % (
                    st['code'], st['kind'], c['query']))
    for c in table['chains']:
        CHAINS[c['query']] = c
    return CHAINS


def build_chain(db, q, v):
    """The Query object of chain q for parameter value v: base generator, then the lambdas, in the spec's order."""
    steps = CHAINS[q]['steps']
    query = BASES[steps[0]['code']](db.T, v)
    for st in steps[1:]:
        query = STEPS[st['code']][1](query, v)
    return query


def canon(r, ordered=False):
    """Answers are compared as bags, unless a step of the chain orders them."""
    if isinstance(r, (list, tuple, core.QueryResult)):
        items = [repr(tuple(x) if isinstance(x, tuple) else x) for x in r]
        return ['seq'] + items if ordered else ['bag'] + sorted(items)
    return ['val', repr(r)]


def execute(db, q, p):
    """Run execution <<q, p>> of the alphabet in the current db_session; returns the canonical answer."""
    v = decode(p)
    if q in ORM:
        return canon(ORM[q](db.T, v))
    if q in CHAINS:
        return canon(build_chain(db, q, v)[:], CHAINS[q]['ordered'])
    if q == 'strq':
        return canon(select(STRQ, {'T': db.T}, {'p': v})[:])
    return canon(db.select(RAW[q], {}, {'p': v}))


def outcome(fn):
    """('ok', answer) or ('err', exception class name): error families, never messages."""
    try:
        return ['ok', fn()]
    except Exception as e:      # the outcome of the real code, compared by the caller
        return ['err', family(e)]


def family(e):
    if isinstance(e, core.TransactionError):
        return 'TransactionError'
    return type(e).__name__


def modify(db, kind, k):
    """The k-th modification of the session's view (deterministic: the data is a function of the view)."""
    if kind == 'ModIns':
        db.T(name='ins%d-uvwxyz' % k, tag='in', n=20 + k)
    elif kind == 'ModM2M':
        db.T[3].groups.add(db.G[k])         # nothing but a many-to-many link changes
    else:
        t = db.T[2]
        t.n = 10 + k
        t.name = 'upd%d-uvwxyz' % k
