"""Shared driver for the PonyTxn properties (C19, C17, C18, C36): scenario execution against the real pony code
under the recording/fault-injecting connection factory and the stepped scheduler, and batch trace validation by TLC
(spec/PonyTxnTrace.tla)."""
import json
import os
import shutil
import sqlite3
import threading

from . import tlc
from .tlc import MachineryError
from .faultdb import Recorder, make_factory, WrapperLock, CONN_PER
from . import sched_txn

from pony.orm import core
from pony.orm.core import db_session, Database, Required, Set, PrimaryKey, Optional, commit, rollback, flush
from pony.orm import dbapiprovider


class AllowedExc(Exception):
    pass


class RetryExc(Exception):
    pass


class OtherExc(Exception):
    pass


class BaseExc(BaseException):
    """Stands for KeyboardInterrupt / SystemExit / GeneratorExit: not derived from Exception."""


EXC = {'allowed': AllowedExc, 'retryable': RetryExc, 'other': OtherExc, 'base': BaseExc}
NROWS = 20


def kind_of(e):
    """Exception -> the exception kinds of PonyTxn."""
    if isinstance(e, AllowedExc):
        return 'allowed'
    if isinstance(e, RetryExc):
        return 'retryable'
    if isinstance(e, OtherExc):
        return 'other'
    if isinstance(e, BaseExc):
        return 'base'
    if isinstance(e, core.CommitException):
        return 'commitexc'
    if isinstance(e, core.RollbackException):
        return 'rollbackexc'
    if isinstance(e, core.UnexpectedError) or isinstance(e, (dbapiprovider.DBException, sqlite3.Error)):
        return 'dberr'
    if isinstance(e, core.TransactionError) and 'manually commit' in str(e):
        return 'txerr'
    if isinstance(e, core.TransactionError):
        return 'txerr:' + type(e).__name__
    return 'py:' + type(e).__name__


def define(db):
    class T(db.Entity):
        v = Required(int)

    class A(db.Entity):
        bs = Set('B')

    class B(db.Entity):
        as_ = Set('A')


_template = {}


SCHEMA = """
CREATE TABLE "A" ("id" INTEGER PRIMARY KEY AUTOINCREMENT);
CREATE TABLE "B" ("id" INTEGER PRIMARY KEY AUTOINCREMENT);
CREATE TABLE "A_B" (
  "a" INTEGER NOT NULL REFERENCES "A" ("id") ON DELETE CASCADE,
  "b" INTEGER NOT NULL REFERENCES "B" ("id") ON DELETE CASCADE,
  PRIMARY KEY ("a", "b")
);
CREATE INDEX "idx_a_b" ON "A_B" ("b");
CREATE TABLE "T" ("id" INTEGER PRIMARY KEY AUTOINCREMENT, "v" INTEGER NOT NULL);
"""


def template_db(scratch):
    """A database file with the schema pony generates for `define` and the pre-state; copied for every scenario.
    Written with plain sqlite3 so that the set-up does not depend on the code under test."""
    key = scratch.dir
    if key in _template:
        return _template[key]
    path = scratch.path('txn', 'template.sqlite')
    con = sqlite3.connect(path)
    con.executescript(SCHEMA)
    con.executemany('insert into T (id, v) values (?, ?)', [(i, i) for i in range(1, NROWS + 1)])
    con.executemany('insert into A (id) values (?)', [(i,) for i in range(1, 4)])
    con.executemany('insert into B (id) values (?)', [(i,) for i in range(1, 4)])
    con.commit()
    con.close()
    _template[key] = path
    return path


_counter = [0]


class Env:
    """One scenario's database: a fresh copy of the template, bound with the recording factory."""

    def __init__(self, scratch, sched=None, sink=None, timeout=None, path=None):
        _counter[0] += 1
        self.path = path or scratch.path('txn', 'db%d.sqlite' % _counter[0])
        if path is None:
            shutil.copyfile(template_db(scratch), self.path)
        self.rec = Recorder(sched=sched, sink=sink)
        self.rec.set_actor(1)
        db = self.db = Database()
        define(db)
        kw = {}
        if timeout is not None:
            kw['timeout'] = timeout
        db.bind('sqlite', self.path, create_db=False, factory=make_factory(self.rec), **kw)
        db.generate_mapping(create_tables=False, check_tables=False)
        self.prov = db.provider
        self.prov.transaction_lock = WrapperLock(self.rec, 'tl')
        self.prov.pre_transaction_lock = WrapperLock(self.rec, 'pre')

    def close(self, remove=True):
        try:
            self.db.disconnect()
        except Exception:
            pass
        if remove:
            for suffix in ('', '-journal', '-wal', '-shm'):
                try:
                    os.remove(self.path + suffix)
                except OSError:
                    pass

    # -- the session options of a PonyTxn session shape ------------------------------------------------------
    def session_kwargs(self, s):
        kw = {}
        kind = s.get('kind', 'opt')
        if kind == 'imm':
            kw['immediate'] = True
        elif kind == 'ser':
            kw['serializable'] = True
        elif kind == 'ddl':
            kw['ddl'] = True
        elif kind == 'nonopt':
            kw['optimistic'] = False
        if s.get('strict'):
            kw['strict'] = True
        if s.get('retry'):
            kw['retry'] = s['retry']
        callables = s.get('callables', False)
        if s.get('noallowed'):
            kw['allowed_exceptions'] = ()
        elif callables:
            kw['allowed_exceptions'] = lambda e: isinstance(e, AllowedExc)
        else:
            kw['allowed_exceptions'] = (AllowedExc,)
        if s.get('dbr'):
            classes = (RetryExc, core.TransactionError, dbapiprovider.DBException, sqlite3.Error)
            kw['retry_exceptions'] = (lambda e: isinstance(e, classes)) if callables else classes
        else:
            # class tuples cannot express "TransactionError but not UnexpectedError": use a callable
            kw['retry_exceptions'] = lambda e: isinstance(e, RetryExc) or (
                isinstance(e, core.TransactionError) and not isinstance(e, core.UnexpectedError))
        return kw

    # -- body operations --------------------------------------------------------------------------------------
    def run_ops(self, ops):
        rec, db = self.rec, self.db
        off = 6 * (rec.actor - 1)          # threads work on disjoint rows
        for op in ops:
            name = op[0]
            if name == 'read':
                rec.point()
                rec.emit('Body', op='read')
                db.select('select count(*) from T')
            elif name == 'create':
                rec.point()
                w = rec.new_write(lambda sql, args, ww=None: False)
                self._set_pred(w, lambda sql, args, w=w: sql.lstrip().upper().startswith('INSERT') and _has(args, w))
                rec.emit('Body', op='write', w=w)
                db.T(v=w)
            elif name == 'update':
                pk = op[1] + off
                rec.point()
                rec.emit('Body', op='read')
                obj = db.T[pk]
                rec.point()
                w = rec.new_write(lambda sql, args: False)
                self._set_pred(w, lambda sql, args, w=w: sql.lstrip().upper().startswith('UPDATE') and _has(args, w))
                rec.emit('Body', op='write', w=w)
                obj.v = w
            elif name == 'delete':
                pk = op[1] + off
                rec.point()
                rec.emit('Body', op='read')
                obj = db.T[pk]
                rec.point()
                w = rec.new_write(lambda sql, args: False)
                self._set_pred(w, lambda sql, args, pk=pk: sql.lstrip().upper().startswith('DELETE') and _has(args, pk))
                self.wmap[w] = ('delete', pk)
                rec.emit('Body', op='write', w=w, _what=['delete', pk])
                obj.delete()
            elif name == 'link':
                i, j = op[1], op[2]
                if i == 'a':
                    i = (rec.actor - 1) % 3 + 1
                rec.point()
                rec.emit('Body', op='read')
                a = db.A[i]
                rec.point()
                rec.emit('Body', op='read')
                b = db.B[j]
                rec.point()
                rec.emit('Body', op='read')
                a.bs.load()                  # so that add() itself issues no query
                rec.point()
                w = rec.new_write(lambda sql, args: False)
                self._set_pred(w, lambda sql, args: sql.lstrip().upper().startswith('INSERT') and 'A_B' in sql.upper())
                self.wmap[w] = ('link', i, j)
                rec.emit('Body', op='write', w=w, _what=['link', i, j])
                a.bs.add(b)
            elif name == 'raw':
                rec.point()
                w = rec.new_write(lambda sql, args: False)
                self._set_pred(w, lambda sql, args, w=w: _has(args, w))
                rec.emit('Body', op='rawwrite', w=w)
                if op[1:] == ('insert',):
                    db.insert('T', v=w)
                else:
                    db.execute('insert into T (v) values ($w)')
            elif name == 'flush':
                rec.point()
                rec.emit('Body', op='flush')
                flush()
            elif name == 'commit':
                rec.point()
                rec.emit('Body', op='commit')
                commit()
            elif name == 'rollback':
                rec.point()
                rec.emit('Body', op='rollback')
                rec.forget_pending()
                rollback()
            elif name == 'nest':
                rec.point()
                rec.emit('Body', op='nest')
                with db_session:
                    self.run_ops(op[1])
                    rec.point()
                    rec.emit('Body', op='unnest')
            elif name == 'failcommit':    # the next DB-API commit raises (commit-time error of this attempt)
                rec.fail_next = 'commit'
            elif name == 'call':          # harness hook (fork scenarios)
                op[1]()
            else:
                raise AssertionError(op)

    def _set_pred(self, w, pred):
        lst = self.rec.pending[self.rec.actor]
        for i, (ww, _) in enumerate(lst):
            if ww == w:
                lst[i] = (w, pred)
        self.wmap.setdefault(w, ('value', w))

    wmap = None

    # -- one session ----------------------------------------------------------------------------------------------
    def run_session(self, s):
        """s: {form, kind, retry, dbr, callables, attempts: [ {ops: [...], end: 'return'|'allowed'|...} ...],
        segments (gen): [ops, ops, ...] separated by yields}.  Returns the End event."""
        rec = self.rec
        if self.wmap is None:
            self.wmap = {}
        form = s.get('form', 'cm')
        spec_kind = {'opt': 'opt', 'imm': 'imm', 'ser': 'imm', 'nonopt': 'imm', 'ddl': 'ddl'}[s.get('kind', 'opt')]
        runs = [0]
        attempts = s['attempts']

        def body_once():
            att = attempts[min(runs[0], len(attempts) - 1)]
            runs[0] += 1
            rec.point()
            rec.forget_pending()
            rec.emit('BodyStart')
            try:
                self.run_ops(att['ops'])
            except BaseException as e:
                rec.emit('BodyEnd', out=kind_of(e))
                raise
            end = att.get('end', 'return')
            rec.point()
            if end == 'return':
                rec.emit('BodyEnd', out='ok')
                return 'value'
            rec.emit('BodyEnd', out=end)
            raise EXC[end]('body raises')

        def gen_body():
            att = attempts[0]
            runs[0] += 1
            rec.point()
            rec.forget_pending()
            rec.emit('BodyStart')
            try:
                for i, seg in enumerate(att['segments']):
                    if i:
                        rec.point()
                        rec.emit('Body', op='yield')
                        yield i
                    self.run_ops(seg)
            except GeneratorExit:
                raise
            except BaseException as e:
                rec.emit('BodyEnd', out=kind_of(e))
                raise
            end = att.get('end', 'return')
            rec.point()
            if end == 'return':
                rec.emit('BodyEnd', out='ok')
                return
            rec.emit('BodyEnd', out=end)
            raise EXC[end]('body raises')

        async def co_body():
            att = attempts[0]
            runs[0] += 1
            rec.point()
            rec.forget_pending()
            rec.emit('BodyStart')
            try:
                for i, seg in enumerate(att['segments']):
                    if i:
                        rec.point()
                        rec.emit('Body', op='yield')
                        await _Suspend()
                    self.run_ops(seg)
            except GeneratorExit:
                raise
            except BaseException as e:
                rec.emit('BodyEnd', out=kind_of(e))
                raise
            end = att.get('end', 'return')
            rec.point()
            if end == 'return':
                rec.emit('BodyEnd', out='ok')
                return
            rec.emit('BodyEnd', out=end)
            raise EXC[end]('body raises')

        kw = self.session_kwargs(s)
        rec.point()
        rec.emit('Start', form=form, kind=spec_kind, retry=s.get('retry', 0), dbr=bool(s.get('dbr')))
        result = 'ok'
        exc = None
        try:
            if form == 'cm':
                with db_session(**kw):
                    body_once()
            elif form == 'dec':
                db_session(**kw)(body_once)()
            elif form == 'gen':
                g = db_session(**kw)(co_body if s.get('coroutine') else gen_body)()
                first = True
                while True:
                    try:
                        if not first:
                            rec.point()
                            rec.emit('Resume')
                        first = False
                        next(g)
                    except StopIteration:
                        break
                    if s.get('between'):
                        s['between']()
                    self.idle()
            else:
                raise AssertionError(form)
        except BaseException as e:
            if isinstance(e, (AssertionError, sched_txn.Stuck)) and not isinstance(e, tuple(EXC.values())):
                exc = e
                result = 'py:' + type(e).__name__
            else:
                exc = e
                result = kind_of(e)
        rec.point()
        end = rec.emit('End', result=result, runs=runs[0])
        end['_exc'] = repr(exc) if exc is not None else None
        self.idle()
        return end

    def idle(self):
        rec = self.rec
        pool = self.prov.pool
        con = getattr(pool, 'con', None)
        in_tx = False
        cid = 0
        if con is not None:
            cid = con.cid
            try:
                in_tx = bool(con.in_transaction)
            except sqlite3.Error:
                in_tx = False
        rec.emit('Idle', locked=self.prov.transaction_lock.locked(), pooled=cid, in_tx=in_tx,
                 closed=sorted(rec.closed.get(rec.actor, [])))

    # -- observer ---------------------------------------------------------------------------------------------------
    def dump(self):
        """Set of write ids whose effect is present in the database file (independent connection)."""
        return dump_writes(self.path, self.wmap or {})


class _Suspend:
    def __await__(self):
        yield 'suspended'


def _has(args, x):
    if isinstance(args, dict):
        return x in args.values()
    for a in args:
        if a == x and not isinstance(a, bool):
            return True
        if isinstance(a, (tuple, list)) and x in a:
            return True
    return False


def dump_writes(path, wmap):
    con = sqlite3.connect(path, timeout=5)
    try:
        rows = dict(con.execute('select id, v from T').fetchall())
        links = set(con.execute('select * from A_B').fetchall())
    finally:
        con.close()
    present = set()
    for w, what in wmap.items():
        if what[0] == 'value':
            if w in rows.values():
                present.add(w)
        elif what[0] == 'delete':
            if what[1] not in rows:
                present.add(w)
        elif what[0] == 'link':
            if (what[1], what[2]) in links or (what[2], what[1]) in links:
                present.add(w)
    return present


# -- running a multi-thread scenario ---------------------------------------------------------------------------------
def run_scenario(scratch, threads, fault=None, policy=None, followup=True, timeout=None):
    """threads: list (one per actor 1..n) of lists of sessions.  fault: None | (k, 'fail').
    Returns dict(trace=..., env-derived facts)."""
    ref = [None]
    if policy == 'onrelease':
        policy = sched_txn.switch_on_release(ref)
    sch = sched_txn.Sched(policy=policy)
    ref[0] = sch
    env = Env(scratch, sched=sch, timeout=timeout)
    rec = env.rec
    n = len(threads)
    ends = {}

    def worker(a, sessions, wait_all=False):
        def fn():
            rec.set_actor(a)
            if wait_all:
                sch.point(wait=lambda: all(w.done for wid, w in sch.workers.items() if wid != a))
            for s in sessions:
                ends.setdefault(a, []).append(env.run_session(s))
        return fn
    for a, sessions in enumerate(threads, 1):
        sch.spawn(a, worker(a, sessions))
    nact = n
    if followup:
        nact = n + 1
        sch.spawn(nact, worker(nact, [dict(form='cm', kind='opt', attempts=[dict(ops=[('create',)])])], wait_all=True))
    rec.armed = True
    if fault:
        rec.fault_at, rec.fault_mode = fault
    stuck = None
    try:
        sch.run()
    except sched_txn.Stuck as e:
        stuck = str(e)
    rec.armed = False
    errors = {wid: repr(w.error) for wid, w in sch.workers.items() if w.error is not None}
    if stuck is None:
        rec.set_actor(1)
        d = env.dump()
        rec.emit('Dump', a=1, dump=sorted(d))
    else:
        rec.emit('Stuck', a=1)
    trace = dict(nthreads=nact, faults=max(rec.nfaults, 1 if fault else 0), fowner=(rec.fault_hit[0] if rec.fault_hit else 1),
                 evs=[{k: v for k, v in e.items() if not k.startswith('_')} for e in rec.events])
    out = dict(trace=trace, ends=ends, calls=rec.calls, call_log=list(rec.call_log), fault_hit=rec.fault_hit,
               stuck=stuck, errors=errors, unexpected=list(rec.unexpected), schedule=list(sch.choices),
               pool_pid_missing=None)
    env.close()
    return out


# -- TLC batch validation -----------------------------------------------------------------------------------------------
TRACE_CFG = '''CONSTANTS
 NActors = 4
 NThreads = 1
 MaxSess = 100
 MaxOps = 1000
 MaxWrites = 1000
 MaxRetry = 5
 MaxNest = 3
 MaxFaults = 5
 ConnPer = %d
 MaxForks = 2
 Forms = {"cm", "dec", "gen"}
 Kinds = {"opt", "imm", "ddl"}
 ExcKinds = {"allowed", "retryable", "other", "base"}
 Provider = "%%s"
 AllowCrash = TRUE
 ForkInSession = TRUE
 Reduce = FALSE
INIT TInit
NEXT TNext
CONSTRAINT Track
POSTCONDITION Report
CHECK_DEADLOCK FALSE
''' % CONN_PER


NO_CHILD = dict(a=0, pool=0, poolPid=0, nc=0, nwl=0)       # trace header: the trace starts in the initial state


def validate(scratch, traces, provider='sqlite', tag='trace'):
    """Validate a batch of traces against PonyTxn in one TLC run.
    Returns (results, TlcResult); results[i] = dict(accepted, reached, len, inv=(pos, name), first_unmatched)."""
    if not traces:
        return [], None
    out = scratch.path('trace', '%s-%d.out.json' % (tag, len(os.listdir(os.path.dirname(scratch.path('trace', 'x'))))))
    inp = out.replace('.out.json', '.in.json')
    for t in traces:
        t.setdefault('child', NO_CHILD)
    with open(inp, 'w') as f:
        json.dump({'traces': traces}, f)
    res = tlc.run('PonyTxnTrace', TRACE_CFG % provider, scratch, env={'IN': inp, 'OUT': out}, workers=1, tag=tag,
                  must_succeed=False)
    if not os.path.exists(out) or not res.ok:
        raise MachineryError('trace validation run failed:\n%s' % tlc._tail(res.stdout, 60))
    with open(out) as f:
        rep = json.load(f)
    results = []
    for t, r in zip(traces, rep):
        n = len(t['evs'])
        reached = r['reached']
        inv = r['inv']
        accepted = reached == n + 1
        d = dict(accepted=accepted, reached=reached, len=n, inv=None, first_unmatched=None,
                 soft=(r['soft'][0], r['soft'][1]) if r.get('soft') and r['soft'][0] else None)
        if not accepted:
            if inv and inv[0]:
                d['inv'] = (inv[0], inv[1])
            if reached <= n and reached >= 1:
                d['first_unmatched'] = t['evs'][reached - 1]
        results.append(d)
    return results, res


def brief(ev):
    keep = {k: v for k, v in ev.items() if k in ('a', 'ev', 'op', 'conn', 'kind', 'w', 'out', 'result', 'runs', 'form', 'retry')
            and v not in ('', 0, 'none', None) or k in ('a', 'ev')}
    return keep


# -- TLC model checking configurations ----------------------------------------------------------------------------------------
def mc_cfg(invariants, properties=(), spec='Spec', **c):
    d = dict(NActors=1, NThreads=1, MaxSess=1, MaxOps=2, MaxWrites=2, MaxRetry=1, MaxNest=2, MaxFaults=1, ConnPer=3,
             MaxForks=0, Forms='{"cm","dec","gen"}', Kinds='{"opt","imm","ddl"}',
             ExcKinds='{"allowed","retryable","other"}', Provider='"sqlite"', AllowCrash='FALSE',
             ForkInSession='FALSE', Reduce='TRUE')
    d.update(c)
    lines = ['CONSTANTS'] + [' %s = %s' % kv for kv in d.items()]
    lines.append('SPECIFICATION %s' % spec)
    if invariants:
        lines.append('INVARIANTS ' + ' '.join(invariants))
    if properties:
        lines.append('PROPERTIES ' + ' '.join(properties))
    return '\n'.join(lines) + '\n'


ALL_INV = ['TypeOK', 'LockReleased', 'LockConsistent', 'ConnAccounted', 'NeverBlockedByDead', 'Atomic',
           'CommitIffSuccess', 'RetryBound', 'AttemptStartsClean', 'OutermostOnly', 'NoForeignConnUse']
ALL_PROP = ['AtomicAction', 'OutermostAction']


def action_names():
    """Line number -> name of the definition that starts there, for mapping TLC coverage locations."""
    names = {}
    import re
    with open(os.path.join(tlc.SPEC_DIR, 'PonyTxn.tla')) as f:
        for i, line in enumerate(f, 1):
            m = re.match(r'^(\w+)(\([^)]*\))? ==', line)
            if m:
                names[i] = m.group(1)
    return names


def coverage_by_definition(res):
    """Definition name -> number of states the action produced, from TLC's -coverage output (action locations
    are mapped to the enclosing definition of PonyTxn.tla)."""
    import re
    names = action_names()
    starts = sorted(names)
    cov = {}
    for m in re.finditer(r'<(\w+) line (\d+), col \d+ to line \d+, col \d+ of module PonyTxn(?: \((\d+) \d+ \d+ \d+\))?>: (\d+):(\d+)',
                         res.stdout):
        line = int(m.group(3) or m.group(2))
        owner = None
        for s in starts:
            if s <= line:
                owner = names[s]
            else:
                break
        cov[owner] = cov.get(owner, 0) + int(m.group(5))
    return cov


OBSERVABLE_ACTIONS = [
    'Start', 'Resume', 'End', 'BodyStart', 'BodyRead', 'BodyWrite', 'BodyRawWrite', 'BodyFlush', 'BodyCommit',
    'BodyRollback', 'BodyNest', 'BodyYield', 'BodyReturn', 'BodyRaise', 'BodyFail',
    'DbConnect', 'DbSetup1', 'DbSetup2', 'DbSetupClose', 'DbCursor', 'DbExec', 'DbModeCursor', 'DbModeFkRead',
    'DbModeFkOff', 'DbBegin', 'DbCommit', 'DbRollback', 'DbDropClose', 'DbRelCursor', 'DbRelFkOn', 'DbRelFkClose',
    'DbPoolRollback', 'DbPoolDropClose', 'LockPre', 'LockAcquire', 'LockReleaseSetMode', 'LockReleaseCommit',
    'LockReleaseRollback', 'LockReleaseDrop']


def silent_label_coverage(res):
    """Silent labels (CASE arms of SilStep) with their evaluation count, from the expression-level coverage."""
    import re
    src = open(os.path.join(tlc.SPEC_DIR, 'PonyTxn.tla')).read().split('\n')
    arm = {}
    for i, line in enumerate(src, 1):
        m = re.search(r'Lbl\(L\) = "(\w+)" -> S_\w+\(L\)', line)
        if m:
            arm[i] = m.group(1)
    counts = {}
    for m in re.finditer(r'^\s*\|*line (\d+), col (\d+) to line \d+, col \d+ of module PonyTxn: (\d+)', res.stdout, re.M):
        line = int(m.group(1))
        if line in arm:
            counts[arm[line]] = max(counts.get(arm[line], 0), int(m.group(3)))
    return arm, counts
