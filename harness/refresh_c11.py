"""Replay of spec/PonyRefresh.tla (C11, C12): a read-only session whose cached objects are refreshed by rows that another
transaction changed in between.

TLC checks IndexRight (C11), EndsAgree (C12), ReadValuesStable / FullCollectionsStable exhaustively in the bounded
model, then `tlc -simulate` with the specification's test purpose (SimNext: load, change outside, deliver the changed
rows again, look at the keys they touched) produces behaviours; each is executed on the real ORM (file-backed SQLite,
the external changes through an independent sqlite3 connection) and every call's outcome and result is compared with
the specification; at the end of a behaviour everything the session holds is read back and compared as well."""
import sqlite3
import sys

from . import tlc
from .tlc import MachineryError
from pony.orm import core
from pony.orm.core import Database, PrimaryKey, Optional, Set, db_session, select


class Boom(Exception):
    pass


def cfg_check(maxext):
    """The complete state space for MaxExt external changes (no bound on the length of behaviours); the observation record
    and the test purpose's history variable are hidden by the VIEW."""
    return ('INIT Init\nNEXT Next\nCONSTANT MaxLevel = 99\nCONSTANT MaxExt = %d\nCHECK_DEADLOCK FALSE\nVIEW DesignView\n'
            'INVARIANT TypeOK\nINVARIANT IndexRight\nINVARIANT EndsAgree\nACTION_CONSTRAINT StepProps\n' % maxext)


def cfg_sim(maxext):
    return ('INIT Init\nNEXT SimNext\nCONSTANT MaxLevel = 99\nCONSTANT MaxExt = %d\nCHECK_DEADLOCK FALSE\n'
            'INVARIANT IndexRight\nINVARIANT EndsAgree\n' % maxext)


def fmap(x):
    """TLC prints a function with domain 1..n as a tuple."""
    if isinstance(x, dict):
        return {int(k): v for k, v in x.items()}
    return {i + 1: v for i, v in enumerate(x)}


class World:
    def __init__(self, path):
        self.path = path
        db = self.db = Database()

        class A(db.Entity):
            _table_ = 'ta'
            id = PrimaryKey(int)
            bs = Set('B')

        class B(db.Entity):
            _table_ = 'tb'
            id = PrimaryKey(int)
            u = Optional(int, unique=True)
            a = Optional(A, column='a_id')

        self.A, self.B = A, B
        db.bind('sqlite', path, create_db=True)
        db.generate_mapping(create_tables=True)

    def reset(self, rows):
        self.db.disconnect()
        con = sqlite3.connect(self.path, isolation_level=None)
        con.execute('BEGIN')
        con.execute('DELETE FROM tb')
        con.execute('DELETE FROM ta')
        con.execute('INSERT INTO ta (id) VALUES (1)')
        con.execute('INSERT INTO ta (id) VALUES (2)')
        for b, row in sorted(rows.items()):
            if row.get('ex', True):
                con.execute('INSERT INTO tb (id, u, a_id) VALUES (?, ?, ?)', (b, row['u'] or None, row['a'] or None))
        con.execute('COMMIT')
        con.close()

    def external(self, b, u, a, how='Ext'):
        con = sqlite3.connect(self.path, isolation_level=None, timeout=2)
        con.execute('PRAGMA foreign_keys=ON')
        if how == 'ExtDelete':
            con.execute('DELETE FROM tb WHERE id = ?', (b,))
        elif how == 'ExtInsert':
            con.execute('INSERT INTO tb (id, u, a_id) VALUES (?, ?, ?)', (b, u or None, a or None))
        else:
            con.execute('UPDATE tb SET u = ?, a_id = ? WHERE id = ?', (u or None, a or None, b))
        con.close()


class Disagreement(Exception):
    def __init__(self, category, what):
        Exception.__init__(self, what)
        self.category = category
        self.what = what


class Runner:
    def __init__(self, w):
        self.w = w
        self.n = 100
        self.objs = {}
        self.session = None

    def same(self, o):
        prev = self.objs.get(o.id)
        if prev is not None and prev is not o:
            raise Disagreement('index', 'B[%d] was delivered as a second Python object in the same session' % o.id)
        self.objs[o.id] = o
        return o.id

    def begin(self):
        self.session = db_session()
        self.session.__enter__()

    def end(self, failed):
        s, self.session = self.session, None
        if s is None:
            return
        if failed:
            try:
                raise Boom()
            except Boom:
                s.__exit__(*sys.exc_info())
        else:
            s.__exit__(None, None, None)

    def execute(self, ev):
        op, k, x, y = ev['op'], ev['k'], ev['x'], ev['y']
        w = self.w
        if op in ('Ext', 'ExtDelete', 'ExtInsert'):
            w.external(k, x, y, op)
            return 'ok', set()
        if op == 'End':
            self.end(False)
            return 'ok', set()
        try:
            if op == 'Fetch':
                self.n += 1
                n = self.n          # a new parameter value each time: the query result cache must not answer
                if k == 0:
                    objs = select(b for b in w.B if b.id < n)[:]
                else:
                    objs = select(b for b in w.B if b.id == k and b.id < n)[:]
                return 'ok', set(self.same(o) for o in objs)
            if op == 'ReadU':
                return 'ok', {self.objs[k].u or 0}
            if op == 'ReadA':
                ref = self.objs[k].a
                return 'ok', {ref.id if ref is not None else 0}
            if op == 'ReadColl':
                return 'ok', set(self.same(o) for o in w.A[k].bs)
            if op == 'GetByU':
                o = w.B.get(u=x)
                return 'ok', ({self.same(o)} if o is not None else set())
        except core.UnrepeatableReadError:
            return 'Unrepeatable', set()
        except core.TransactionIntegrityError:
            return 'Integrity', set()
        raise MachineryError('unknown action %r' % op)

    def final(self, st):
        """Read back everything the session holds; the expected values are the specification's cache."""
        loaded, cu, ca = fmap(st['loaded']), fmap(st['cu']), fmap(st['ca'])
        coll = fmap(st['coll'])
        for b in sorted(loaded):
            if not loaded[b]:
                continue
            o = self.objs.get(b)
            if o is None:
                raise MachineryError('the specification says B[%d] is loaded but no call delivered it' % b)
            if (o.u or 0) != cu[b]:
                raise Disagreement('index', 'at the end B[%d].u is %r, the specification says %r' % (b, o.u, cu[b]))
            ref = o.a
            if (ref.id if ref is not None else 0) != ca[b]:
                raise Disagreement('ends', 'at the end B[%d].a is %r, the specification says %r' % (b, ref, ca[b]))
            if cu[b]:
                got = self.w.B.get(u=cu[b])
                if got is not o:
                    raise Disagreement('index', 'at the end B.get(u=%d) is %r although B[%d] holds that key in this session' % (cu[b], got, b))
        for a in sorted(coll):
            if coll[a]['full']:
                got = set(o.id for o in self.w.A[a].bs)
                if got != set(coll[a]['items']):
                    raise Disagreement('ends', 'at the end A[%d].bs is %r, the specification says %r' % (a, sorted(got), sorted(coll[a]['items'])))


def run_one(w, states):
    """Returns (trace, Disagreement or None, counters)."""
    rows = fmap(states[0]['db'])
    w.reset(rows)
    r = Runner(w)
    trace = [{'init': {str(b): [row['u'], row['a']] for b, row in rows.items() if row.get('ex', True)}}]
    cnt = {'steps': 0, 'refreshes': 0, 'loud': 0}
    r.begin()
    failed = False
    try:
        try:
            for i in range(1, len(states)):
                st = states[i]
                ev = st['ev']
                if st['sess'] == 'over' and states[i - 1]['sess'] == 'failed':
                    r.end(True)
                    break
                out, ret = r.execute(ev)
                cnt['steps'] += 1
                trace.append({'op': ev['op'], 'k': ev['k'], 'x': ev['x'], 'y': ev['y'], 'out': out, 'ret': sorted(ret)})
                if ev['op'] in ('Fetch', 'ReadColl', 'GetByU') and states[i - 1]['nExt'] > 0:
                    cnt['refreshes'] += 1
                if out != ev['out'] or (out == 'ok' and set(ret) != set(ev['ret'])):
                    cat = 'ends' if ev['op'] in ('ReadColl', 'ReadA') else 'index'
                    raise Disagreement(cat, '%s(%d,%d,%d): pony -> %s %r; the specification says %s %r' % (
                        ev['op'], ev['k'], ev['x'], ev['y'], out, sorted(ret), ev['out'], sorted(ev['ret'])))
                if out != 'ok':
                    cnt['loud'] += 1
                    failed = True
                    r.end(True)
                    break
                if st['sess'] == 'over':
                    break
            else:
                if states[-1]['sess'] == 'open':
                    r.final(states[-1])
                    trace.append({'op': 'final-reads', 'k': 0, 'x': 0, 'y': 0, 'out': 'ok', 'ret': []})
        except Disagreement as d:
            return trace, d, cnt
        except MachineryError:
            raise
        except Exception as exc:
            import traceback
            return trace, Disagreement('crash', 'unexpected %s inside pony: %s\n%s' % (type(exc).__name__, exc, traceback.format_exc()[-1200:])), cnt
        return trace, None, cnt
    finally:
        try:
            r.end(True)
        except Exception:
            pass
        while core.local.db_session is not None:
            try:
                core.local.db_session.__exit__(Boom, Boom(), None)
            except Exception:
                core.local.db_session = None


def run(ctx, nsim, check_ext, maxext=3, depth=10):
    res = tlc.model_check('PonyRefresh', cfg_check(check_ext), ctx.scratch, workers=8)
    behaviours, _ = tlc.simulate('PonyRefresh', cfg_sim(maxext), ctx.scratch, num=nsim, depth=depth, seed=ctx.seed + 1)
    w = World(ctx.scratch.path('db', 'refresh.sqlite'))
    found = []
    stats = {'behaviours': 0, 'steps': 0, 'refreshes': 0, 'loud': 0, 'with_refresh': 0}
    for states in behaviours:
        trace, bad, cnt = run_one(w, states)
        stats['behaviours'] += 1
        for k in ('steps', 'refreshes', 'loud'):
            stats[k] += cnt[k]
        if cnt['refreshes']:
            stats['with_refresh'] += 1
        if bad is not None:
            found.append((bad.category, bad.what, trace))
            if len(found) >= 20:
                break
    w.db.disconnect()
    return res, stats, found


def report(ctx, prop, res, stats, found):
    """C11 owns index/identity/crash disagreements, C12 the two ends of the relationship."""
    mine = {'C11': ('index', 'crash'), 'C12': ('ends', 'crash')}[prop]
    for cat, what, trace in found:
        if cat in mine:
            last = trace[-1]
            ctx.mismatch('%s:refresh:%s:%s' % (prop, cat, last.get('op')), what, {'refresh_trace': trace})
    ctx.coverage['states'] += res.distinct
    ctx.coverage['transitions'] += res.generated
    ctx.coverage['traces_validated_against_impl'] += stats['behaviours']
    ctx.coverage['refresh_model'] = stats


def replay(ctx, rep):
    w = World(ctx.scratch.path('db', 'refresh.sqlite'))
    tr = rep['refresh_trace']
    rows = {int(b): {'ex': True, 'u': ua[0], 'a': ua[1]} for b, ua in tr[0]['init'].items()}
    w.reset(rows)
    r = Runner(w)
    r.begin()
    try:
        for t in tr[1:]:
            if t['op'] == 'final-reads':
                continue
            out, ret = r.execute(t)
            print('%s(%d,%d,%d) -> %s %r   [recorded: %s %r]' % (t['op'], t['k'], t['x'], t['y'], out, sorted(ret), t['out'], t['ret']))
            if out != 'ok':
                break
    finally:
        try:
            r.end(True)
        except Exception:
            pass
    w.db.disconnect()
