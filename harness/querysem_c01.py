"""Shared by C01 and C02: the QuerySem query trees (spec/QuerySem.tla) on the Python side.

Nothing here decides anything: the functions render a tree to Python source, build the three ways of handing
a query to Pony, populate the fixed schema with a data set TLC exported, normalise results, evaluate the same
source with CPython over plain objects (self-check of the specification), and draw random well-typed trees
for the thorough tier (TLC re-checks their typing with QuerySem!WellTyped before it evaluates them).
"""
import random
from collections import Counter
from datetime import datetime, timedelta

from pony.orm import core
from pony.orm.core import Database, PrimaryKey, Optional, Required, Set, db_session, select, desc

BOOL_TAGS = {'cmp', 'and', 'or', 'not', 'truth', 'isnone', 'notnone', 'startswith', 'endswith', 'contains',
             'notcontains', 'intuple', 'notintuple', 'exists', 'insub', 'notinsub', 'insetattr', 'notinsetattr', 'true'}


# ---------------------------------------------------------------------------------------------------
# schema

def define(db):
    class T(db.Entity):
        id = PrimaryKey(int)
        a = Optional(int)
        b = Optional(int)
        s = Optional(str, nullable=True)
        flag = Required(bool)
        ref = Optional('T2')
        dt = Optional(datetime)

    class T2(db.Entity):
        id = PrimaryKey(int)
        n = Optional(int)
        ts = Set('T')


def make_sqlite_db():
    db = Database()
    define(db)
    db.bind('sqlite', ':memory:')
    db.generate_mapping(create_tables=True)
    return db


def unval(x):
    t = x['t']
    if t == 'null':
        return None
    if t == 'str':
        return ''.join(x['v'])
    if t == 'err':
        return 'ERROR'
    if t == 'dt':
        return EPOCH + timedelta(minutes=x['v'])
    return x['v']


EPOCH = datetime(2020, 1, 1)


def dataset_rows(ds):
    """TLC's data set -> (rows of T2, rows of T) as python tuples in table column order."""
    t2 = [(unval(r['id']), unval(r['n'])) for r in ds['T2']]
    t = [(unval(r['id']), unval(r['a']), unval(r['b']), unval(r['s']), unval(r['flag']), unval(r['ref']), unval(r['dt'])) for r in ds['T']]
    return t2, t


def load_dataset(db, ds):
    """Replace the contents of the two tables (inside the current db_session) through the DB-API connection."""
    t2, t = dataset_rows(ds)
    con = db.get_connection()
    con.execute('DELETE FROM "T"')
    con.execute('DELETE FROM "T2"')
    con.executemany('INSERT INTO "T2" ("id", "n") VALUES (?, ?)', t2)
    con.executemany('INSERT INTO "T" ("id", "a", "b", "s", "flag", "ref", "dt") VALUES (?, ?, ?, ?, ?, ?, ?)',
                    [(i, a, b, s, int(f), r, d and d.strftime('%Y-%m-%d %H:%M:%S.%f')) for i, a, b, s, f, r, d in t])


# ---------------------------------------------------------------------------------------------------
# rendering: fully parenthesised python source

def src(e):
    t = e[0]
    if t == 'attr':
        return '%s.%s' % (e[1], e[2])
    if t == 'var':
        return e[1]
    if t == 'nav':
        return '%s.%s.%s' % (e[1], e[2], e[3])
    if t == 'int':
        return str(e[1]) if e[1] >= 0 else '(%d)' % e[1]
    if t == 'str':
        return repr(''.join(e[1]))
    if t == 'true':
        return 'True'
    if t == 'param':
        return param_name(e[1])
    if t in ('dtadd', 'dtsub'):
        return '(%s %s timedelta(minutes=%d))' % (src(e[1]), '+' if t == 'dtadd' else '-', e[2])
    if t == 'dtaddp':
        return '(%s + %s)' % (src(e[1]), td_name(e[2]))
    if t == 'setattr':
        return '%s.%s' % (e[1], e[2])
    if t == 'bin':
        return '(%s %s %s)' % (src(e[2]), e[1], src(e[3]))
    if t == 'neg':
        return '(-%s)' % src(e[1])
    if t in ('abs', 'len'):
        return '%s(%s)' % (t, src(e[1]))
    if t in ('upper', 'lower'):
        return '%s.%s()' % (src(e[1]), t)
    if t == 'concat':
        return '(%s + %s)' % (src(e[1]), src(e[2]))
    if t == 'coalesce':
        return 'coalesce(%s, %s)' % (src(e[1]), src(e[2]))
    if t == 'cmp':
        return '(%s %s %s)' % (src(e[2]), e[1], src(e[3]))
    if t in ('and', 'or'):
        return '(%s %s %s)' % (src(e[1]), t, src(e[2]))
    if t == 'not':
        return '(not %s)' % src(e[1])
    if t == 'truth':
        return src(e[1])
    if t == 'isnone':
        return '(%s is None)' % src(e[1])
    if t == 'notnone':
        return '(%s is not None)' % src(e[1])
    if t in ('startswith', 'endswith'):
        return '%s.%s(%s)' % (src(e[1]), t, src(e[2]))
    if t == 'contains':
        return '(%s in %s)' % (src(e[1]), src(e[2]))
    if t == 'notcontains':
        return '(%s not in %s)' % (src(e[1]), src(e[2]))
    if t in ('intuple', 'notintuple'):
        items = [repr(''.join(c)) if isinstance(c, list) else repr(c) for c in e[2]]
        return '(%s %s (%s,))' % (src(e[1]), 'in' if t == 'intuple' else 'not in', ', '.join(items))
    if t == 'ifexp':
        return '(%s if %s else %s)' % (src(e[1]), src(e[2]), src(e[3]))
    if t == 'exists':
        return 'exists(%s %s)' % (e[1][0][0], loops_src(e[1], e[2]))
    if t in ('insub', 'notinsub'):
        return '(%s %s (%s %s))' % (src(e[1]), 'in' if t == 'insub' else 'not in', src(e[3]), loops_src(e[2], e[4]))
    if t in ('insetattr', 'notinsetattr'):
        return '(%s %s %s.%s.%s)' % (src(e[1]), 'in' if t == 'insetattr' else 'not in', e[2], e[3], e[4])
    if t == 'setagg':
        if e[1] == 'count':
            return 'count(%s.%s)' % (e[2], e[3])
        return '%s(%s.%s.%s)' % (e[1], e[2], e[3], e[4])
    raise ValueError('unknown node %r' % (e,))


def param_name(c):
    """Name of the Python variable that holds the constant c = ['int', n] / ['str', chars]."""
    if c[0] == 'int':
        return 'pi_%s' % str(c[1]).replace('-', 'm')
    return 'ps_' + ''.join('%02x' % ord(ch) for ch in c[1])


def td_name(m):
    return 'ptd_%s' % str(m).replace('-', 'm')


def bindings(e, acc):
    """Variables (name -> value) the rendered source of e refers to."""
    if not isinstance(e, list) or not e:
        return acc
    if e[0] == 'param':
        acc[param_name(e[1])] = e[1][1] if e[1][0] == 'int' else ''.join(e[1][1])
    elif e[0] == 'dtaddp':
        acc[td_name(e[2])] = timedelta(minutes=e[2])
    for c in e[1:]:
        if isinstance(c, list):
            bindings(c, acc)
    return acc


def query_bindings(q):
    acc = {}
    for part in [q['cond']] + list(q['res']) + [k for k, d in q['ord']]:
        bindings(part, acc)
    return acc


def loops_src(loops, cond):
    parts = []
    for lp in loops:
        if len(lp) == 2:
            parts.append('for %s in %s' % (lp[0], lp[1]))
        else:
            parts.append('for %s in %s.%s' % (lp[0], lp[1], lp[2]))
    s = ' '.join(parts)
    if cond[0] != 'true':
        s += ' if ' + src(cond)
    return s


def res_src(res):
    if len(res) == 1:
        return src(res[0])
    return '(' + ', '.join(src(r) for r in res) + ')'


def body_src(q):
    return '%s %s' % (res_src(q['res']), loops_src(q['loops'], q['cond']))


def ord_src(q):
    keys = []
    for k, d in q['ord']:
        keys.append('desc(%s)' % src(k) if d == 'desc' else src(k))
    return keys


def describe(q):
    s = body_src(q)
    if q['agg'] != 'none':
        return '%s(%s)' % (q['agg'], s)
    if q['ord']:
        return 'select(%s).order_by(%s)' % (s, ', '.join(ord_src(q)))
    return 'select(%s)' % s


def tags_of(e, acc=None):
    """All node tags (with operators) of an expression tree."""
    acc = set() if acc is None else acc
    t = e[0]
    if t in ('bin', 'cmp'):
        acc.add('%s%s' % (t, e[1]))
        kids = e[2:4]
    elif t == 'setagg':
        acc.add('setagg-' + e[1])
        kids = []
    elif t in ('attr', 'var', 'nav', 'int', 'str', 'true', 'setattr', 'param'):
        acc.add(t)
        kids = []
    elif t in ('dtadd', 'dtsub', 'dtaddp'):
        acc.add(t)
        kids = [e[1]]
    elif t in ('intuple', 'notintuple', 'insetattr', 'notinsetattr'):
        acc.add(t)
        kids = [e[1]]
    elif t == 'exists':
        acc.add(t)
        kids = [e[2]]
    elif t in ('insub', 'notinsub'):
        acc.add(t)
        kids = [e[1], e[3], e[4]]
    else:
        acc.add(t)
        kids = e[1:]
    for c in kids:
        tags_of(c, acc)
    return acc


def query_tags(q):
    acc = set()
    tags_of(q['cond'], acc)
    for r in q['res']:
        tags_of(r, acc)
    for k, d in q['ord']:
        tags_of(k, acc)
    acc.discard('true')
    return acc


def form_of(q):
    if q['agg'] != 'none':
        return 'aggregate'
    if q['ord']:
        return 'order_by'
    if len(q['loops']) > 1:
        return 'two-loops'
    if q['loops'][0][1] == 'T2':
        return 'attr-set'
    tags = query_tags(q)
    if tags & {'exists', 'insub', 'notinsub'}:
        return 'subquery'
    if 'nav' in tags:
        return 'navigation'
    if q['res'] == [['var', 'x']]:
        return 'filter'
    return 'projection'


def has_bool_operand_cmp(e):
    """Is there a comparison one of whose operands is a compound boolean expression?"""
    if not isinstance(e, (list, tuple)) or not e:
        return False
    if e[0] == 'cmp' and any(isinstance(c, (list, tuple)) and c and c[0] in BOOL_TAGS and c[0] != 'true' for c in e[2:4]):
        return True
    return any(has_bool_operand_cmp(c) for c in e[1:] if isinstance(c, (list, tuple)))


# ---------------------------------------------------------------------------------------------------
# the ways of handing a query to Pony

def namespace(db):
    from pony import orm
    ns = {'T': db.T, 'T2': db.T2, 'select': orm.select, 'exists': orm.exists, 'count': orm.count, 'sum': orm.sum,
          'min': orm.min, 'max': orm.max, 'coalesce': orm.coalesce, 'desc': orm.desc, 'len': len, 'abs': abs,
          'timedelta': timedelta, 'datetime': datetime}
    return ns


def ways_of(db, q):
    """[(name, source, thunk)] - each thunk, called inside a db_session, returns the raw result of one way of
    writing the query.  The whole call chain is compiled as source in one namespace, because Pony resolves the
    names used inside query strings and lambdas in the frame that calls select()/order_by()."""
    ns = namespace(db)
    ns.update(query_bindings(q))
    body = body_src(q)
    agg = q['agg']
    keys = ord_src(q)
    var = q['loops'][0][0]
    single_entity = len(q['loops']) == 1 and q['res'] == [['var', var]] and len(q['loops'][0]) == 2
    tail = '.%s()' % agg if agg != 'none' else '[:]'
    order_str = order_lam = ''
    if keys and agg == 'none':
        order_str = '.order_by(%r)' % ', '.join(keys)
        order_lam = '.order_by(lambda %s: (%s,))' % (var if single_entity else '', ', '.join(keys))
    exprs = [('string', 'select(%r)%s%s' % (body, order_str, tail))]
    if agg != 'none':
        exprs.append(('generator', '%s(%s)' % (agg, body)))             # pony.orm.sum(<generator>) etc.
    else:
        exprs.append(('generator', 'select(%s)%s%s' % (body, order_lam, tail)))
    if single_entity:
        exprs.append(('lambda', '%s.select(lambda %s: %s)%s%s' % (q['loops'][0][1], var, src(q['cond']), order_lam, tail)))
    return [(name, e, eval(compile('lambda: ' + e, '<c01-%s>' % name, 'eval'), ns)) for name, e in exprs]


def norm_value(v):
    if isinstance(v, core.Entity):
        v = v.get_pk()
    if v is None:
        return ('null', None)
    if isinstance(v, bool):
        return ('bool', v)
    if isinstance(v, int):
        return ('int', v)
    if isinstance(v, str):
        return ('str', v)
    if isinstance(v, datetime):
        return ('dt', v)
    if isinstance(v, float) and v == int(v):
        return ('float', v)
    return (type(v).__name__, repr(v))


def norm_result(q, raw):
    """Pony's / CPython's raw result -> list of rows, each a tuple of (type, value)."""
    if q['agg'] != 'none':
        return [(norm_value(raw),)]
    rows = []
    for r in raw:
        if isinstance(r, tuple):
            rows.append(tuple(norm_value(v) for v in r))
        else:
            rows.append((norm_value(r),))
    return rows


def expected_rows(res):
    return [tuple((v['t'], unval(v)) for v in row) for row in res['rows']]


def expected_keys(res):
    return [tuple((v['t'], unval(v)) for v in key) for key in res['keys']]


def agrees(res, got):
    """Does the list of rows `got` equal TLC's result `res`, up to the freedom the result kind leaves?"""
    exp = expected_rows(res)
    if res['kind'] in ('set', 'val'):
        return Counter(exp) == Counter(got)            # a set result must come without duplicates
    # sequence: same rows; the order is compared on the rows none of whose sort keys is missing
    if Counter(exp) != Counter(got):
        return False
    keys = expected_keys(res)
    free = set(r for r, k in zip(exp, keys) if any(t == 'null' for t, _ in k))
    # rows are identified by value; a free row may appear anywhere
    return [r for r in exp if r not in free] == [r for r in got if r not in free]


def tagged(rows):
    """Rows of (type, value) -> the tagged JSON values of the specification."""
    out = []
    for row in rows:
        o = []
        for t, v in row:
            if t == 'null':
                o.append({'t': 'null'})
            elif t == 'str':
                o.append({'t': 'str', 'v': list(v)})
            elif t in ('int', 'bool'):
                o.append({'t': t, 'v': v})
            elif t == 'dt' and (v - EPOCH) % timedelta(minutes=1) == timedelta(0):
                o.append({'t': 'dt', 'v': (v - EPOCH) // timedelta(minutes=1)})
            else:
                o.append({'t': 'other', 'v': str(v)})
        out.append(o)
    return out


def plain(rows):
    return [tuple(v for _, v in r) for r in rows]


# ---------------------------------------------------------------------------------------------------
# CPython evaluation of the same source over plain objects (self-check of the specification)

class Undefined(Exception):
    """CPython defines no answer (it raises), so there is nothing to compare the specification with."""


class _Obj(object):
    def __init__(self, **kw):
        self.__dict__.update(kw)

    def get_pk(self):
        return self.id


class _Coll(list):
    """A collection attribute of a plain object: attribute lifting as Pony's Set/Multiset do."""

    def __getattr__(self, name):
        if name.startswith('__'):
            raise AttributeError(name)
        return _Coll(getattr(o, name) for o in self)


def plain_objects(ds):
    t2rows, trows = dataset_rows(ds)
    t2 = {i: _Obj(id=i, n=n, ts=_Coll()) for i, n in t2rows}
    ts = []
    for i, a, b, s, f, r, d in trows:
        o = _Obj(id=i, a=a, b=b, s=s, flag=f, ref=t2.get(r), dt=d)
        ts.append(o)
        if r is not None:
            t2[r].ts.append(o)
    return ts, list(t2.values())


def _py_count(x):
    return len(list(x))


def _py_sum(x):
    return sum(x)


def _py_min(x, *rest):
    if rest:
        return min(x, *rest)
    x = list(x)
    return min(x) if x else None


def _py_max(x, *rest):
    if rest:
        return max(x, *rest)
    x = list(x)
    return max(x) if x else None


def _py_coalesce(*args):
    for a in args:
        if a is not None:
            return a
    return None


def cpython_result(q, ds):
    """Evaluate the query's own source with CPython on plain objects; apply the result form's semantics
    (set / sorted sequence / aggregate) in Python.  Raises Undefined where CPython raises."""
    ts, t2s = plain_objects(ds)
    ns = _py_namespace(ts, t2s)
    ns.update(query_bindings(q))
    keys = [src(k) for k, d in q['ord']]
    body = '((%s, (%s)) %s)' % (res_src(q['res']) if len(q['res']) > 1 else '(%s,)' % src(q['res'][0]),
                                 ''.join(k + ', ' for k in keys), loops_src(q['loops'], q['cond']))
    try:
        pairs = list(eval(body, ns))
    except (TypeError, AttributeError, ValueError, ZeroDivisionError) as e:
        raise Undefined(repr(e))
    rows = []
    for row, key in pairs:
        rows.append((tuple(o.get_pk() if isinstance(o, _Obj) else o for o in row), key))
    agg = q['agg']
    if agg != 'none':
        if agg == 'count':
            v = len(set(r for r, k in rows))
        else:
            vals = [r[0] for r, k in rows]
            v = {'sum': _py_sum, 'min': _py_min, 'max': _py_max}[agg](vals)
        return [(norm_value(v),)]
    uniq = []
    seen = set()
    for r, k in rows:
        tr = tuple(norm_value(v) for v in r)
        if tr not in seen:
            seen.add(tr)
            uniq.append((tr, k))
    if q['ord']:
        for j in range(len(q['ord']) - 1, -1, -1):
            uniq.sort(key=lambda rk: rk[1][j], reverse=q['ord'][j][1] == 'desc')
    return [r for r, k in uniq]


def _py_namespace(ts, t2s):
    return {'T': ts, 'T2': t2s, 'exists': lambda g: any(True for _ in g), 'count': _py_count, 'sum': _py_sum,
            'min': _py_min, 'max': _py_max, 'coalesce': _py_coalesce, 'len': len, 'abs': abs,
            'timedelta': timedelta, 'datetime': datetime}


def _constants(e, ints, strs):
    if not isinstance(e, list) or not e:
        return
    if e[0] == 'int':
        ints.add(e[1])
    elif e[0] == 'str':
        strs.add(''.join(e[1]))
    elif e[0] in ('intuple', 'notintuple'):
        for c in e[2]:
            if isinstance(c, list):
                strs.add(''.join(c))
            else:
                ints.add(c)
    for c in e[1:]:
        if isinstance(c, list):
            _constants(c, ints, strs)


def plain_grid(q):
    """None-free plain objects covering combinations of attribute values around the constants of the query."""
    ints, strs = set(), set()
    for part in [q['cond']] + list(q['res']) + [k for k, d in q['ord']]:
        _constants(part, ints, strs)
    ivals = sorted(set([-1, 0, 1, 2]) | set(sorted(ints)[:4]) | set(i - 1 for i in sorted(ints)[:2]))[:8]
    svals = sorted(set(['', 'a', 'ab']) | set(sorted(strs)[:5]) | set(x.upper() for x in sorted(strs)[:2]))[:9]
    u = [_Obj(id=1, n=1, ts=_Coll()), _Obj(id=2, n=-1, ts=_Coll())]
    ts = []
    for a in ivals:
        for b in ivals:
            for s in svals:
                for f in (False, True):
                    o = _Obj(id=len(ts) + 1, a=a, b=b, s=s, flag=f, ref=u[(a + b) % 2], dt=EPOCH + timedelta(minutes=30 * a))
                    o.ref.ts.append(o)
                    ts.append(o)
    return ts, u


def _ifexp_test_size(tree):
    import ast
    return sum(len(list(ast.walk(n.test))) for n in ast.walk(tree) if isinstance(n, ast.IfExp))


def decompiler_changes_meaning(q, way):
    """Arbitration by CPython, used only to attribute a disagreement of a bytecode way (generator / lambda):
    Pony's decompiler turns the code object back into an AST; that AST is compiled again and evaluated by
    CPython over a grid of None-free plain objects next to the original code.  True: the two differ,
    i.e. the decompiler changed the meaning of the query before any translation took place.  None: undecidable."""
    import ast
    import copy
    from pony.orm.decompiling import decompile
    ts, t2s = plain_grid(q)
    ns = _py_namespace(ts, t2s)
    ns.update(query_bindings(q))
    src_name = q['loops'][0][1]
    text = '(' + body_src(q) + ')'
    try:
        if way == 'generator':
            original = list(eval(text, ns))
            obj = eval(text, ns)
        else:
            obj = eval('lambda %s: %s' % (q['loops'][0][0], src(q['cond'])), ns)
            original = [o for o in ns[src_name] if obj(o)]
    except Exception:
        return None
    try:
        tree = copy.deepcopy(decompile(obj)[0])
    except Exception:
        return None
    orig_text = text if way == 'generator' else src(q['cond'])
    if _ifexp_test_size(tree) > _ifexp_test_size(ast.parse(orig_text, mode='eval').body):
        # structural witness: the test of a conditional expression has absorbed other conditions (invisible to
        # CPython when those only exclude missing values)
        return True
    if way == 'generator':
        # structural witness: a filter clause of the generator is gone from the decompiled AST (its test was merged
        # into a conditional expression); invisible to CPython when the filter only excludes missing values
        orig_tree = ast.parse(text, mode='eval').body
        if sum(len(g.ifs) for g in tree.generators) < sum(len(g.ifs) for g in orig_tree.generators):
            return True

    class Rename(ast.NodeTransformer):
        def visit_Name(self, n):
            if n.id == '.0':
                return ast.copy_location(ast.Name(id=src_name, ctx=ast.Load()), n)
            return n
    tree = Rename().visit(tree)
    if way != 'generator':
        tree = ast.Lambda(args=ast.arguments(posonlyargs=[], args=[ast.arg(arg=q['loops'][0][0])], kwonlyargs=[],
                                             kw_defaults=[], defaults=[]), body=tree)
    e = ast.Expression(body=tree)
    ast.fix_missing_locations(e)
    try:
        redone = eval(compile(e, '<decompiled>', 'eval'), ns)
        redone = list(redone) if way == 'generator' else [o for o in ns[src_name] if redone(o)]
    except Exception:
        return True
    return redone != original


# ---------------------------------------------------------------------------------------------------
# random well-typed trees of depth <= 3 (thorough tier); the grammar is QuerySem's (TypeOf / WellTyped)

def has_attr(e):
    if not isinstance(e, list) or not e:
        return False
    if e[0] in ('attr', 'nav', 'var'):
        return True
    return any(has_attr(c) for c in e[1:] if isinstance(c, list))


def _grounded(method):
    """Compound nodes without any attribute are constant expressions, which Pony evaluates in Python
    before translation - the subject of C04, not of C01: redraw such nodes."""
    def wrapper(self, d):
        for _ in range(20):
            e = method(self, d)
            if has_attr(e):
                return e
        return ['attr', self.var, {'int_expr': 'a', 'str_expr': 's', 'bool_expr': 'flag'}[method.__name__]]
    wrapper.__name__ = method.__name__
    return wrapper


class Sampler(object):
    """Random well-typed trees.  Constants are leaves only (every compound node contains an attribute)."""

    def __init__(self, seed, var='x', allow_div=False):
        self.r = random.Random(seed)
        self.var = var
        self.allow_div = allow_div

    def chars(self):
        n = self.r.choice([0, 1, 1, 2, 2, 3])
        return [self.r.choice(['a', 'b', 'A', '%', '_', '!', '\\']) for _ in range(n)]

    def int_leaf(self):
        r = self.r
        if r.random() < 0.6:
            return ['attr', self.var, r.choice(['a', 'b'])]
        return ['int', r.choice([0, 1, -1, 2, -2, 3])]

    def str_leaf(self):
        if self.r.random() < 0.6:
            return ['attr', self.var, 's']
        return ['str', self.chars()]

    def int_sub(self, d):
        """operand position: a constant leaf is allowed here"""
        return self.int_leaf() if d == 0 or self.r.random() < 0.25 else self.int_expr(d)

    def str_sub(self, d):
        return self.str_leaf() if d == 0 or self.r.random() < 0.3 else self.str_expr(d)

    @_grounded
    def int_expr(self, d):
        r = self.r
        if d == 0:
            return ['attr', self.var, r.choice(['a', 'b'])]
        k = r.random()
        if k < 0.5:
            return ['bin', r.choice(['+', '-', '*']), self.int_sub(d - 1), self.int_sub(d - 1)]
        if k < 0.58:
            return ['neg', self.int_expr(d - 1)]
        if k < 0.64:
            return ['abs', self.int_expr(d - 1)]
        if k < 0.76:
            return ['len', self.str_expr(d - 1)]
        if k < 0.86:
            return ['coalesce', self.int_expr(d - 1), self.int_sub(d - 1)]
        if k < 0.9 and self.allow_div:
            return ['bin', '//', self.int_expr(d - 1), ['int', r.choice([2, -2, 3])]]
        return ['ifexp', self.int_sub(d - 1), self.bool_expr(d - 1), self.int_sub(d - 1)]

    @_grounded
    def str_expr(self, d):
        r = self.r
        if d == 0:
            return ['attr', self.var, 's']
        k = r.random()
        if k < 0.45:
            return ['concat', self.str_sub(d - 1), self.str_sub(d - 1)]
        if k < 0.6:
            return ['upper', self.str_expr(d - 1)]
        if k < 0.75:
            return ['lower', self.str_expr(d - 1)]
        if k < 0.87:
            return ['coalesce', self.str_expr(d - 1), self.str_sub(d - 1)]
        return ['ifexp', self.str_sub(d - 1), self.bool_expr(d - 1), self.str_sub(d - 1)]

    @_grounded
    def bool_expr(self, d):
        r = self.r
        if d == 0:
            k = r.random()
            if k < 0.4:
                return ['attr', self.var, 'flag']
            if k < 0.7:
                return ['truth', ['attr', self.var, r.choice(['a', 'b'])]]
            return ['truth', ['attr', self.var, 's']]
        k = r.random()
        if k < 0.28:
            return ['cmp', r.choice(['==', '!=', '<', '<=', '>', '>=']), self.int_sub(d - 1), self.int_sub(d - 1)]
        if k < 0.36:
            return ['cmp', r.choice(['==', '!=']), self.str_sub(d - 1), self.str_sub(d - 1)]
        if k < 0.50:
            return [r.choice(['and', 'or']), self.bool_expr(d - 1), self.bool_expr(d - 1)]
        if k < 0.60:
            return ['not', self.bool_expr(d - 1)]
        if k < 0.72:
            return [r.choice(['startswith', 'endswith']), self.str_sub(d - 1), self.str_sub(d - 1)]
        if k < 0.82:
            return [r.choice(['contains', 'notcontains']), self.str_sub(d - 1), self.str_sub(d - 1)]
        if k < 0.88:
            e = self.int_expr(d - 1) if r.random() < 0.5 else self.str_expr(d - 1)
            return [r.choice(['isnone', 'notnone']), e]
        if k < 0.94:
            if r.random() < 0.5:
                return [r.choice(['intuple', 'notintuple']), self.int_expr(d - 1),
                        sorted(set(r.choice([0, 1, -1, 2]) for _ in range(r.choice([1, 2, 3]))))]
            return [r.choice(['intuple', 'notintuple']), self.str_expr(d - 1), [self.chars() for _ in range(r.choice([1, 2]))]]
        if k < 0.97:
            return ['truth', self.int_expr(d - 1)]
        return ['truth', self.str_expr(d - 1)]

    def query(self, depth):
        r = self.r
        v = self.var
        loops = [[v, 'T']]
        k = r.random()
        if k < 0.55:
            return dict(loops=loops, res=[['var', v]], cond=self.bool_expr(depth), ord=[], agg='none')
        if k < 0.8:
            e = self.int_expr(depth) if r.random() < 0.6 else self.str_expr(depth)
            cond = ['true'] if r.random() < 0.5 else self.bool_expr(1)
            return dict(loops=loops, res=[e], cond=cond, ord=[], agg='none')
        if k < 0.9:
            key = self.int_expr(depth - 1)
            return dict(loops=loops, res=[['var', v]], cond=self.bool_expr(1),
                        ord=[[key, r.choice(['asc', 'desc'])], [['attr', v, 'id'], 'asc']], agg='none')
        fn = r.choice(['sum', 'min', 'max', 'count'])
        if fn == 'count':
            return dict(loops=loops, res=[['var', v]], cond=self.bool_expr(depth), ord=[], agg='count')
        return dict(loops=loops, res=[self.int_expr(depth - 1)], cond=self.bool_expr(depth - 1), ord=[], agg=fn)
